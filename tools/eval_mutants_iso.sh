#!/bin/bash
# eval_mutants_iso.sh [names...]: for use with `vp run --with-repo -- tools/eval_mutants_iso.sh`.
# Runs in a snapshot of /verif (cwd) against a snapshot of /repo ($VP_RUN_REPO): applies each seeded change there, runs the registered quick
# check of its property (fixed seed set), undoes the change.  Results: $OUT/<name>.json (default /root/mut_iso).
R=${VP_RUN_REPO:?needs --with-repo}; OUT=${OUT:-/root/mut_iso}; mkdir -p $OUT
names=${@:-$(ls seeded)}
for n in $names; do
  prop=${n%%-*}
  [ -f seeded/$n/patch.diff ] || continue
  git -C $R checkout -q -- . ; git -C $R apply $PWD/seeded/$n/patch.diff || { echo "$n: patch does not apply"; continue; }
  t0=$(date +%s)
  VERIF_REPO=$R ./check $prop > $OUT/$n.out 2>&1; rc=$?
  t1=$(date +%s)
  git -C $R checkout -q -- .
  nv=$(grep -c "^VIOLATION" $OUT/$n.out)
  first=$(grep -A1 "^VIOLATION" $OUT/$n.out | grep "oracle=" | head -3 | sed 's/ detail=.*//' | tr '\n' ';')
  echo "$n: check $prop rc=$rc violations=$nv wall=$((t1-t0))s $first"
  python3 - <<PY
import json
json.dump({"check":"./check $prop (quick tier, fixed seed set)","exit_code":$rc,"violation_lines":$nv,"first_oracles":"""$first""","detected": $rc==1 and $nv>0,"wall_s":$((t1-t0))}, open("$OUT/$n.json","w"), indent=1)
PY
done
