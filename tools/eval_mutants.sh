#!/bin/bash
# eval_mutants.sh [names...]: apply each seeded change to /repo, run the quick check of its property, undo the change
cd /verif
names=${@:-$(ls seeded)}
for n in $names; do
  prop=${n%%-*}
  [ -f seeded/$n/patch.diff ] || continue
  git -C /repo checkout -q -- . ; git -C /repo apply /verif/seeded/$n/patch.diff || { echo "$n: patch does not apply"; continue; }
  t0=$(date +%s)
  VERIF_BUDGET_S=${BUDGET:-40} ./check $prop > /root/mut_$n.out 2>&1; rc=$?
  t1=$(date +%s)
  git -C /repo checkout -q -- .
  nv=$(grep -c "^VIOLATION" /root/mut_$n.out)
  first=$(grep -A1 "^VIOLATION" /root/mut_$n.out | grep "oracle=" | head -3 | sed 's/ detail=.*//' | tr '\n' ';')
  echo "$n: check $prop rc=$rc violations=$nv wall=$((t1-t0))s $first"
  python3 - <<PY
import json,os
p="/verif/seeded/$n/detection.json"
json.dump({"check":"./check $prop --tier quick","budget_s":${BUDGET:-40},"exit_code":$rc,"violation_lines":$nv,"first_oracles":"""$first""","detected": $rc==1 and $nv>0}, open(p,"w"), indent=1)
PY
done
git -C /repo status --short | grep -v _build | head -3
