#!/bin/bash
# confirm_mutant.sh <seeded-dir-name>: scratch worktree, apply patch, build, run the 468 tests, build and run the demo with and without the change
set -u
name=$1; d=/verif/seeded/$name; wt=/tmp/confirm_$name
git -C /repo worktree remove --force $wt 2>/dev/null; rm -rf $wt
git -C /repo worktree add -q $wt HEAD || exit 2
cd $wt
git apply $d/patch.diff || { echo "patch does not apply"; git -C /repo worktree remove --force $wt; exit 2; }
cmake -S $wt -B $wt/_b -G Ninja -DCMAKE_BUILD_TYPE=RelWithDebInfo -DPAPILO=off >/dev/null 2>&1
cmake --build $wt/_b -j ${JOBS:-8} > $wt/build.log 2>&1; brc=$?
passed=$(ctest --test-dir $wt/_b -j8 --timeout 900 2>/dev/null | grep -o "[0-9]*% tests passed, [0-9]* tests failed out of [0-9]*")
extra=""; grep -q pthread $d/demo.cpp && extra="-pthread"
g++ -std=c++17 -O1 -DNDEBUG $extra -I/repo/src -I/repo/_build $d/demo.cpp /repo/_build/lib/libsoplex.a -lgmpxx -lgmp -lmpfr -lz -o $wt/demo_orig > $wt/demo_orig.log 2>&1
g++ -std=c++17 -O1 -DNDEBUG $extra -I$wt/src -I$wt/_b $d/demo.cpp $wt/_b/lib/libsoplex.a -lgmpxx -lgmp -lmpfr -lz -o $wt/demo_mut > $wt/demo_mut.log 2>&1
timeout 300 $wt/demo_orig > $wt/o.out 2>&1; orc=$?
timeout 300 $wt/demo_mut > $wt/m.out 2>&1; mrc=$?
python3 - <<PY
import json
json.dump({"build_rc":$brc,"ctest":"$passed","demo_unchanged_rc":$orc,"demo_with_change_rc":$mrc,"confirmed": ($brc==0 and "0 tests failed out of 468" in "$passed" and $orc==0 and $mrc!=0),
 "demo_with_change_tail": open("$wt/m.out",errors="replace").read()[-600:]}, open("$d/results.json","w"), indent=1)
PY
cat $d/results.json | head -8
cd /; git -C /repo worktree remove --force $wt; rm -rf $wt
