#!/bin/bash
# thorough_some.sh "<props>": run thorough checks (for `vp run --with-repo`); results in $OUT
R=${VP_RUN_REPO:-/repo}; OUT=${OUT:-/root/thorough}; mkdir -p $OUT
for p in ${1:-"C06 C03"}; do t0=$(date +%s); VERIF_REPO=$R ./check $p --tier thorough > $OUT/$p.out 2>&1; echo "$p rc=$? wall=$(( $(date +%s) - t0 ))s $(grep -c '^VIOLATION' $OUT/$p.out) violations" | tee -a $OUT/summary.txt; for f in $(grep '^VIOLATION' $OUT/$p.out | sed 's/.*replay=//'); do mkdir -p $OUT/plans; cp $f $OUT/plans/ 2>/dev/null; done; done
