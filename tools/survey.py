#!/usr/bin/env python3
"""survey.py <engine> <props> <count-per-worker> [variant]: run 16 workers without shrinking and tabulate violations by (prop, oracle)."""
import sys, subprocess, json, collections, glob, os
engine, props, cnt = sys.argv[1], sys.argv[2], int(sys.argv[3])
variant = sys.argv[4] if len(sys.argv) > 4 else "plain"
b = sorted(glob.glob("/verif/build/*/%s/simrun" % variant), key=os.path.getmtime)[-1]
W = 16
procs = [subprocess.Popen([b, "--engine", engine, "--prop", props, "--seed0", os.environ.get("VERIF_SEED", "777"), "--start", str(i), "--stride", str(W), "--count", str(cnt), "--scratch", "/tmp/survey/w%d" % i, "--known", "/verif/known_findings.jsonl"], stdout=subprocess.PIPE, stderr=subprocess.DEVNULL, text=True) for i in range(W)]
c = collections.Counter(); ex = {}; runs = 0; crashed = []
for i, p in enumerate(procs):
    out, _ = p.communicate()
    last = None
    for l in out.splitlines():
        if l.startswith("B "): last = l.split()[1]
        elif l.startswith("E "): runs += 1; last = None
        elif l.startswith("V "):
            v = json.loads(l[2:]); k = (v["prop"], v["oracle"]); c[k] += 1; ex.setdefault(k, (v["seed"], v["detail"][:150], {a: b2 for a, b2 in v["ctx"].items() if a in ("rep", "scaler", "persistent", "simplifier", "solvemode", "status", "twin", "stop", "nonbasic_free_row", "alg")}))
    if p.returncode != 0: crashed.append((i, p.returncode, last))
print("runs", runs, "crashed workers", crashed)
for k, n in c.most_common(): print(n, k, ex[k])
