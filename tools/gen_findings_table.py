#!/usr/bin/env python3
"""Regenerate the table of catalogued findings in DESIGN.md (section 15) from known_findings.jsonl."""
import json, os
V = "/verif"
rows = []
for line in open(os.path.join(V, "known_findings.jsonl")):
    line = line.strip()
    if not line or line.startswith("#"): continue
    d = json.loads(line)
    if d.get("status") != "known": continue
    when = "{" + ", ".join("%s: %s" % kv for kv in d.get("when", {}).items()) + "}"
    what = d.get("what", "").replace("|", "\\|").replace("\n", " ")
    rows.append("| %s | `%s` | `%s`%s | %s | %s |" % (d["property"], d["oracle"], when.replace("|", "\\|"), " skip" if d.get("skip") else "", os.path.basename(d.get("replay", "")), what))
p = os.path.join(V, "DESIGN.md"); lines = open(p).read().split("\n")
h = lines.index("| property | oracle | when | replay plan | what |")
e = h + 2
while e < len(lines) and lines[e].startswith("|"): e += 1
lines[h + 2:e] = rows
open(p, "w").write("\n".join(lines))
print("%d catalogued findings written" % len(rows))
