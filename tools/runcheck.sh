#!/bin/bash
# runcheck.sh <prop> [budget]: run a check and print a compact summary
p=$1; b=${2:-30}
VERIF_BUDGET_S=$b /verif/check $p > /root/out_$p.txt 2>&1; rc=$?
grep "by oracle" /root/out_$p.txt | tr ',' '\n' | head -12
grep "^VIOLATION\|^HARNESS\|^note\|^  oracle\|^BUILD" /root/out_$p.txt | cut -c1-420 | head -20
echo "known-finding lines: $(grep -c '^KNOWN' /root/out_$p.txt)"; tail -1 /root/out_$p.txt; echo "rc=$rc"
