#!/bin/bash
# sweep.sh "<seeds>" "<props>": run quick checks under several VERIF_SEED values (as `vp check` does with VERIF_SEED=1) and keep what they report.
# for `vp run --with-repo -- tools/sweep.sh "1 2 3"`; results in $OUT (default /root/sweep)
R=${VP_RUN_REPO:-/repo}; OUT=${OUT:-/root/sweep}; mkdir -p $OUT
seeds=${1:-"1 2 3"}; props=${2:-"C01 C02 C03 C04 C05 C06 C07 C09 C11 C12 C13 C14 C15 C16 C17 C18"}
for sd in $seeds; do for p in $props; do
  t0=$(date +%s); VERIF_REPO=$R VERIF_SEED=$sd ./check $p > $OUT/$p.$sd.out 2>&1; rc=$?
  echo "seed=$sd $p rc=$rc wall=$(( $(date +%s) - t0 ))s $(grep -c '^VIOLATION' $OUT/$p.$sd.out) violations" | tee -a $OUT/summary.txt
  for f in $(grep '^VIOLATION' $OUT/$p.$sd.out | sed 's/.*replay=//'); do mkdir -p $OUT/plans; cp $f $OUT/plans/ 2>/dev/null; done
done; done
echo done >> $OUT/summary.txt
