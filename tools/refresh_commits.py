#!/usr/bin/env python3
"""Keep the commit hashes of 'fixed' entries in known_findings.jsonl in line with /repo (entries carry the commit subject)."""
import json, subprocess
log = subprocess.check_output(["git", "-C", "/repo", "log", "--format=%h\t%s"]).decode().splitlines()
by_hash = {l.split("\t")[0]: l.split("\t", 1)[1] for l in log}
by_subj = {v: k for k, v in by_hash.items()}
out = []
for line in open("/verif/known_findings.jsonl"):
    if not line.strip() or line.startswith("#"): out.append(line.rstrip("\n")); continue
    d = json.loads(line)
    if d.get("status") == "fixed":
        if "commit_subject" not in d and d.get("commit") in by_hash: d["commit_subject"] = by_hash[d["commit"]]
        if d.get("commit_subject") in by_subj: d["commit"] = by_subj[d["commit_subject"]]
        elif d.get("commit") not in by_hash: print("UNRESOLVED", d.get("commit"), d.get("what", "")[:80])
    out.append(json.dumps(d))
open("/verif/known_findings.jsonl", "w").write("\n".join(out) + "\n")
