#include "lpmodel.h"
#include <sstream>
#include <cstring>
#include <cfloat>

namespace model {

Ext Ext::parse(const std::string& s) {
  if (s == "inf" || s == "+inf") return pinf();
  if (s == "-inf") return ninf();
  Ext e; e.v = Q(s); e.v.canonicalize(); return e;
}
std::string qstr(const Q& q) { return q.get_str(); }

Q q_from_double(double d) { Q q; mpq_set_d(q.get_mpq_t(), d); return q; }
double q_to_double_trunc(const Q& q) { return mpq_get_d(q.get_mpq_t()); }
double q_to_double_nearest(const Q& q) {
  double t = mpq_get_d(q.get_mpq_t());   // toward zero
  if (std::isinf(t)) return t;
  Q qt = q_from_double(t);
  if (qt == q) return t;
  double o = (sgn(q) > 0) ? std::nextafter(t, INFINITY) : std::nextafter(t, -INFINITY);
  if (std::isinf(o)) return t;
  Q qo = q_from_double(o);
  Q d1 = abs(q - qt), d2 = abs(qo - q);
  if (d1 < d2) return t;
  if (d2 < d1) return o;
  // tie: even mantissa
  uint64_t bt; memcpy(&bt, &t, 8);
  return (bt & 1) ? o : t;
}
bool double_is_image(const Q& q, double d) {
  if (std::isnan(d) || std::isinf(d)) return false;
  double t = mpq_get_d(q.get_mpq_t());
  if (d == t) return true;
  Q qt = q_from_double(t);
  if (qt == q) return false;
  double o = (sgn(q) > 0) ? std::nextafter(t, INFINITY) : std::nextafter(t, -INFINITY);
  return d == o;
}
double ext_to_double(const Ext& e, double infty) {
  if (e.inf > 0) return infty; if (e.inf < 0) return -infty;
  return q_to_double_nearest(e.v);
}
Ext ext_from_double(double d, double infty) {
  if (d >= infty) return Ext::pinf(); if (d <= -infty) return Ext::ninf();
  if (std::isnan(d)) return Ext(Q(0));
  return Ext(q_from_double(d));
}

int LP::nnz() const { int n = 0; for (auto& r : A) for (auto& v : r) if (v != 0) n++; return n; }
void LP::addRow(const Ext& l, const std::vector<Q>& coefs, const Ext& r) {
  std::vector<Q> row(ncols(), Q(0));
  for (int j = 0; j < ncols() && j < (int)coefs.size(); j++) row[j] = coefs[j];
  A.push_back(row); lhs.push_back(l); rhs.push_back(r);
}
void LP::addCol(const Q& c, const Ext& l, const std::vector<Q>& coefs, const Ext& u) {
  for (int i = 0; i < nrows(); i++) A[i].push_back(i < (int)coefs.size() ? coefs[i] : Q(0));
  obj.push_back(c); lo.push_back(l); up.push_back(u);
}
void LP::removeRow(int i) {
  int last = nrows() - 1;
  if (i != last) { A[i] = A[last]; lhs[i] = lhs[last]; rhs[i] = rhs[last]; }
  A.pop_back(); lhs.pop_back(); rhs.pop_back();
}
void LP::removeCol(int j) {
  int last = ncols() - 1;
  for (auto& r : A) { if (j != last) r[j] = r[last]; r.pop_back(); }
  if (j != last) { obj[j] = obj[last]; lo[j] = lo[last]; up[j] = up[last]; }
  obj.pop_back(); lo.pop_back(); up.pop_back();
}
void LP::removeRows(std::vector<int>& perm) {
  int k = 0;
  for (int i = 0; i < nrows(); i++) {
    if (perm[i] >= 0) { if (k != i) { A[k] = A[i]; lhs[k] = lhs[i]; rhs[k] = rhs[i]; } perm[i] = k++; }
    else perm[i] = -1;
  }
  A.resize(k); lhs.resize(k); rhs.resize(k);
}
void LP::removeCols(std::vector<int>& perm) {
  int k = 0, n = ncols();
  for (int j = 0; j < n; j++) {
    if (perm[j] >= 0) {
      if (k != j) { for (auto& r : A) r[k] = r[j]; obj[k] = obj[j]; lo[k] = lo[j]; up[k] = up[j]; }
      perm[j] = k++;
    } else perm[j] = -1;
  }
  for (auto& r : A) r.resize(k);
  obj.resize(k); lo.resize(k); up.resize(k);
}
bool LP::boundsConsistent() const {
  for (int j = 0; j < ncols(); j++) if (up[j] < lo[j]) return false;
  for (int i = 0; i < nrows(); i++) if (rhs[i] < lhs[i]) return false;
  return true;
}
std::string LP::text() const {
  std::ostringstream o;
  o << "lp " << nrows() << " " << ncols() << " sense " << sense << " offset " << qstr(offset) << "\n";
  for (int j = 0; j < ncols(); j++) o << "col " << j << " obj " << qstr(obj[j]) << " lo " << lo[j].str() << " up " << up[j].str() << "\n";
  for (int i = 0; i < nrows(); i++) {
    o << "row " << i << " lhs " << lhs[i].str() << " rhs " << rhs[i].str() << " :";
    for (int j = 0; j < ncols(); j++) if (A[i][j] != 0) o << " " << j << ":" << qstr(A[i][j]);
    o << "\n";
  }
  o << "endlp\n";
  return o.str();
}
bool LP::parse(const std::string& txt, LP& out) {
  std::istringstream in(txt);
  std::string tok; int m, n;
  if (!(in >> tok) || tok != "lp") return false;
  in >> m >> n;
  out.clear();
  std::string s;
  in >> tok >> out.sense >> tok >> s; out.offset = Q(s);
  out.obj.assign(n, Q(0)); out.lo.assign(n, Ext()); out.up.assign(n, Ext());
  out.lhs.assign(m, Ext()); out.rhs.assign(m, Ext()); out.A.assign(m, std::vector<Q>(n, Q(0)));
  std::string line;
  std::getline(in, line);
  while (std::getline(in, line)) {
    std::istringstream ls(line);
    std::string k; ls >> k;
    if (k == "endlp") return true;
    if (k == "col") {
      int j; std::string a, b, c, t;
      ls >> j >> t >> a >> t >> b >> t >> c;
      if (j < 0 || j >= n) return false;
      out.obj[j] = Q(a); out.lo[j] = Ext::parse(b); out.up[j] = Ext::parse(c);
    } else if (k == "row") {
      int i; std::string a, b, t;
      ls >> i >> t >> a >> t >> b >> t;
      if (i < 0 || i >= m) return false;
      out.lhs[i] = Ext::parse(a); out.rhs[i] = Ext::parse(b);
      std::string e;
      while (ls >> e) {
        size_t p = e.find(':'); if (p == std::string::npos) return false;
        int j = atoi(e.substr(0, p).c_str()); if (j < 0 || j >= n) return false;
        out.A[i][j] = Q(e.substr(p + 1)); out.A[i][j].canonicalize();
      }
    }
  }
  return false;
}

// ---------------------------------------------------------------- generators
Q gen_value(sim::Rng& rng, const GenCfg& cfg, int mag) {
  long n = rng.range(1, mag);
  if (rng.chance(0.5)) n = -n;
  Q v(n);
  if (cfg.fractions && rng.chance(0.5)) { long d = rng.pick({3L, 7L, 5L, 9L, 11L, 6L}); v = Q(n, d); v.canonicalize(); }
  else if (rng.chance(0.15)) { v = Q(n, rng.pick({2L, 4L, 8L})); v.canonicalize(); }
  if (cfg.bigRatios && rng.chance(0.15)) {
    int e = rng.range(12, 40); Q p; mpq_set_ui(p.get_mpq_t(), 1, 1); mpq_mul_2exp(p.get_mpq_t(), p.get_mpq_t(), e);
    if (rng.chance(0.5)) v *= p; else v /= p;
  }
  return v;
}
static Q pow2(int e) { Q p(1); if (e >= 0) mpq_mul_2exp(p.get_mpq_t(), p.get_mpq_t(), e); else mpq_div_2exp(p.get_mpq_t(), p.get_mpq_t(), -e); return p; }

static void random_matrix(sim::Rng& rng, const GenCfg& cfg, LP& lp, int m, int n) {
  lp.A.assign(m, std::vector<Q>(n, Q(0)));
  for (int i = 0; i < m; i++)
    for (int j = 0; j < n; j++)
      if (rng.chance(cfg.density)) lp.A[i][j] = gen_value(rng, cfg, 6);
  if (cfg.allowEmpty && m > 0 && n > 0) {
    if (rng.chance(0.15)) { int i = rng.range(0, m - 1); for (auto& v : lp.A[i]) v = 0; }               // empty row
    if (rng.chance(0.15)) { int j = rng.range(0, n - 1); for (int i = 0; i < m; i++) lp.A[i][j] = 0; }  // empty col
    if (rng.chance(0.2) && m > 1) { int a = rng.range(0, m - 1), b = rng.range(0, m - 1); if (a != b) { lp.A[b] = lp.A[a]; if (rng.chance(0.5)) for (auto& v : lp.A[b]) v *= 2; } }  // dup/parallel row
    if (rng.chance(0.2)) { int i = rng.range(0, m - 1); int j = rng.range(0, n - 1); for (auto& v : lp.A[i]) v = 0; lp.A[i][j] = gen_value(rng, cfg, 4); }  // singleton row
    if (rng.chance(0.15) && n > 1) { int a = rng.range(0, n - 1), b = rng.range(0, n - 1); if (a != b) for (int i = 0; i < m; i++) lp.A[i][b] = lp.A[i][a]; }  // dup col
  }
}

static void apply_dyadic(sim::Rng& rng, LP& lp) {
  // rows and columns multiplied by powers of two (keeps the class; rescales x and sides consistently)
  for (int i = 0; i < lp.nrows(); i++) if (rng.chance(0.5)) {
    Q p = pow2(rng.range(-6, 6));
    for (auto& v : lp.A[i]) v *= p;
    if (lp.lhs[i].finite()) lp.lhs[i].v *= p; if (lp.rhs[i].finite()) lp.rhs[i].v *= p;
  }
  for (int j = 0; j < lp.ncols(); j++) if (rng.chance(0.5)) {
    Q p = pow2(rng.range(-6, 6));   // x_j' = x_j / p
    for (int i = 0; i < lp.nrows(); i++) lp.A[i][j] *= p;
    lp.obj[j] *= p;
    if (lp.lo[j].finite()) lp.lo[j].v /= p; if (lp.up[j].finite()) lp.up[j].v /= p;
  }
}

static LP gen_free(sim::Rng& rng, const GenCfg& cfg) {
  LP lp;
  int n = rng.range(1, cfg.maxCols), m = rng.range(0, cfg.maxRows);
  lp.sense = rng.chance(0.5) ? -1 : 1;
  if (rng.chance(0.3)) lp.offset = gen_value(rng, cfg, 9);
  lp.obj.resize(n); lp.lo.resize(n); lp.up.resize(n); lp.lhs.resize(m); lp.rhs.resize(m);
  random_matrix(rng, cfg, lp, m, n);
  for (int j = 0; j < n; j++) {
    lp.obj[j] = rng.chance(0.25) ? Q(0) : gen_value(rng, cfg, 8);
    int t = rng.range(0, 9);
    Q a = rng.chance(0.6) ? Q(0) : gen_value(rng, cfg, 5);
    if (t <= 3) { lp.lo[j] = Ext(a); lp.up[j] = Ext::pinf(); }
    else if (t <= 5) { lp.lo[j] = Ext(a); lp.up[j] = Ext(Q(a + abs(gen_value(rng, cfg, 8)))); }
    else if (t == 6) { lp.lo[j] = Ext::ninf(); lp.up[j] = Ext(a); }
    else if (t == 7) { lp.lo[j] = Ext::ninf(); lp.up[j] = Ext::pinf(); }
    else if (t == 8) { lp.lo[j] = Ext(a); lp.up[j] = Ext(a); }
    else { lp.lo[j] = Ext(Q(0)); lp.up[j] = Ext(abs(gen_value(rng, cfg, 9))); }
  }
  // with probability .6 the sides are placed around the activity of a point inside the bounds (feasible by construction)
  bool around = rng.chance(0.6);
  std::vector<Q> x0(n, Q(0));
  if (around) for (int j = 0; j < n; j++) {
    if (lp.lo[j].finite() && lp.up[j].finite()) x0[j] = rng.chance(0.5) ? lp.lo[j].v : (rng.chance(0.5) ? lp.up[j].v : Q((lp.lo[j].v + lp.up[j].v) / 2));
    else if (lp.lo[j].finite()) x0[j] = lp.lo[j].v + (rng.chance(0.5) ? Q(0) : abs(gen_value(rng, cfg, 4)));
    else if (lp.up[j].finite()) x0[j] = lp.up[j].v - (rng.chance(0.5) ? Q(0) : abs(gen_value(rng, cfg, 4)));
    else x0[j] = rng.chance(0.5) ? Q(0) : gen_value(rng, cfg, 4);
  }
  for (int i = 0; i < m; i++) {
    int t = rng.range(0, 9);
    Q a = gen_value(rng, cfg, 12);
    if (around) {
      Q act = 0; for (int j = 0; j < n; j++) act += lp.A[i][j] * x0[j];
      Q g1 = rng.chance(0.4) ? Q(0) : abs(gen_value(rng, cfg, 6)), g2 = rng.chance(0.4) ? Q(0) : abs(gen_value(rng, cfg, 6));
      if (t <= 2) { lp.lhs[i] = Ext::ninf(); lp.rhs[i] = Ext(Q(act + g2)); }
      else if (t <= 5) { lp.lhs[i] = Ext(Q(act - g1)); lp.rhs[i] = Ext::pinf(); }
      else if (t <= 7) { lp.lhs[i] = Ext(act); lp.rhs[i] = Ext(act); }
      else if (t == 8) { lp.lhs[i] = Ext(Q(act - g1)); lp.rhs[i] = Ext(Q(act + g2)); }
      else { lp.lhs[i] = Ext::ninf(); lp.rhs[i] = Ext::pinf(); }
      continue;
    }
    if (t <= 2) { lp.lhs[i] = Ext::ninf(); lp.rhs[i] = Ext(a); }
    else if (t <= 5) { lp.lhs[i] = Ext(a); lp.rhs[i] = Ext::pinf(); }
    else if (t <= 7) { lp.lhs[i] = Ext(a); lp.rhs[i] = Ext(a); }
    else if (t == 8) { lp.lhs[i] = Ext(a); lp.rhs[i] = Ext(Q(a + abs(gen_value(rng, cfg, 10)))); }
    else { lp.lhs[i] = Ext::ninf(); lp.rhs[i] = Ext::pinf(); }
  }
  return lp;
}

// planted optimal: choose x*, y, r first, then c and the sides/bounds around them
static LP gen_planted_opt(sim::Rng& rng, const GenCfg& cfg) {
  LP lp;
  int n = rng.range(1, cfg.maxCols), m = rng.range(1, std::max(1, cfg.maxRows));
  lp.sense = rng.chance(0.5) ? -1 : 1;
  if (rng.chance(0.4)) lp.offset = gen_value(rng, cfg, 9);
  lp.obj.assign(n, Q(0)); lp.lo.resize(n); lp.up.resize(n); lp.lhs.resize(m); lp.rhs.resize(m);
  random_matrix(rng, cfg, lp, m, n);
  std::vector<Q> x(n), y(m, Q(0)), r(n, Q(0));
  for (int j = 0; j < n; j++) x[j] = rng.chance(0.3) ? Q(0) : gen_value(rng, cfg, 6);
  // min-form multipliers: y_i >= 0 on a row active at lhs, <= 0 at rhs; r_j >= 0 at lower, <= 0 at upper
  for (int i = 0; i < m; i++) {
    Q act = 0; for (int j = 0; j < n; j++) act += lp.A[i][j] * x[j];
    int t = rng.range(0, 9);
    Q gap = abs(gen_value(rng, cfg, 7));
    Q yy = rng.chance(0.2) ? Q(0) : abs(gen_value(rng, cfg, 5));   // degenerate with prob .2
    if (t <= 2) { lp.lhs[i] = Ext(act); lp.rhs[i] = rng.chance(0.5) ? Ext::pinf() : Ext(Q(act + gap)); y[i] = yy; }
    else if (t <= 5) { lp.rhs[i] = Ext(act); lp.lhs[i] = rng.chance(0.5) ? Ext::ninf() : Ext(Q(act - gap)); y[i] = -yy; }
    else if (t <= 7) { lp.lhs[i] = Ext(act); lp.rhs[i] = Ext(act); y[i] = rng.chance(0.5) ? yy : Q(-yy); }
    else { lp.lhs[i] = rng.chance(0.5) ? Ext::ninf() : Ext(Q(act - gap)); lp.rhs[i] = rng.chance(0.5) ? Ext::pinf() : Ext(Q(act + gap)); y[i] = 0; }
  }
  for (int j = 0; j < n; j++) {
    int t = rng.range(0, 9);
    Q gap = abs(gen_value(rng, cfg, 7));
    Q rr = rng.chance(0.2) ? Q(0) : abs(gen_value(rng, cfg, 5));
    if (t <= 3) { lp.lo[j] = Ext(x[j]); lp.up[j] = rng.chance(0.6) ? Ext::pinf() : Ext(Q(x[j] + gap)); r[j] = rr; }
    else if (t <= 5) { lp.up[j] = Ext(x[j]); lp.lo[j] = rng.chance(0.5) ? Ext::ninf() : Ext(Q(x[j] - gap)); r[j] = -rr; }
    else if (t == 6) { lp.lo[j] = Ext(x[j]); lp.up[j] = Ext(x[j]); r[j] = rng.chance(0.5) ? rr : Q(-rr); }
    else { lp.lo[j] = rng.chance(0.5) ? Ext::ninf() : Ext(Q(x[j] - gap)); lp.up[j] = rng.chance(0.5) ? Ext::pinf() : Ext(Q(x[j] + gap)); r[j] = 0; }
  }
  for (int j = 0; j < n; j++) {
    Q c = r[j]; for (int i = 0; i < m; i++) c += lp.A[i][j] * y[i];
    lp.obj[j] = (lp.sense < 0) ? c : Q(-c);
  }
  return lp;
}

static LP gen_planted_infeas(sim::Rng& rng, const GenCfg& cfg) {
  GenCfg c2 = cfg; c2.maxRows = std::max(1, cfg.maxRows - 2);
  LP lp = gen_planted_opt(rng, c2);
  int n = lp.ncols();
  // two rows  p.x >= beta + k  and  s*(p.x) <= s*beta  (s > 0), optionally the second plus a multiple of an equality row
  std::vector<Q> p(n, Q(0));
  bool any = false;
  for (int j = 0; j < n; j++) if (rng.chance(0.6)) { p[j] = gen_value(rng, cfg, 5); any = true; }
  if (!any) p[0] = 1;
  Q beta = gen_value(rng, cfg, 9), k = abs(gen_value(rng, cfg, 4)) + 1;
  Q s = abs(gen_value(rng, cfg, 3));
  std::vector<Q> p2(n); for (int j = 0; j < n; j++) p2[j] = p[j] * s;
  Q beta2 = beta * s;
  int eq = -1;
  for (int i = 0; i < lp.nrows(); i++) if (lp.lhs[i].finite() && lp.rhs[i].finite() && lp.lhs[i] == lp.rhs[i]) { eq = i; break; }
  if (eq >= 0 && rng.chance(0.6)) { Q t = gen_value(rng, cfg, 3); for (int j = 0; j < n; j++) p2[j] += t * lp.A[eq][j]; beta2 += t * lp.lhs[eq].v; }
  lp.addRow(Ext(Q(beta + k)), p, Ext::pinf());
  lp.addRow(Ext::ninf(), p2, Ext(beta2));
  // shuffle the two new rows into random positions
  int m = lp.nrows();
  for (int t = 0; t < 2; t++) { int a = m - 1 - t, b = rng.range(0, m - 1); std::swap(lp.A[a], lp.A[b]); std::swap(lp.lhs[a], lp.lhs[b]); std::swap(lp.rhs[a], lp.rhs[b]); }
  return lp;
}

static LP gen_planted_unbd(sim::Rng& rng, const GenCfg& cfg) {
  LP lp = gen_planted_opt(rng, cfg);   // feasible (x* exists); now open a recession direction d with c.d improving
  int n = lp.ncols(), m = lp.nrows();
  std::vector<Q> d(n, Q(0)); bool any = false;
  for (int j = 0; j < n; j++) if (rng.chance(0.5)) { d[j] = gen_value(rng, cfg, 3); any = true; }
  if (!any) d[0] = 1;
  for (int j = 0; j < n; j++) { if (d[j] > 0) lp.up[j] = Ext::pinf(); if (d[j] < 0) lp.lo[j] = Ext::ninf(); }
  for (int i = 0; i < m; i++) {
    Q ad = 0; for (int j = 0; j < n; j++) ad += lp.A[i][j] * d[j];
    if (ad > 0) lp.rhs[i] = Ext::pinf(); if (ad < 0) lp.lhs[i] = Ext::ninf();
  }
  Q cd = 0; for (int j = 0; j < n; j++) cd += lp.obj[j] * d[j];
  // need sense*c.d > 0 (max: increasing; min (sense=-1): c.d<0)
  if (cd * lp.sense <= 0) {
    int j = 0; for (; j < n; j++) if (d[j] != 0) break;
    Q need = Q(lp.sense) * (abs(cd) + 1) / d[j];
    lp.obj[j] += need;
  }
  return lp;
}

LP generate(sim::Rng& rng, const GenCfg& cfg) {
  LP lp;
  switch (cfg.klass) {
    case 1: lp = gen_planted_opt(rng, cfg); break;
    case 2: lp = gen_planted_infeas(rng, cfg); break;
    case 3: lp = gen_planted_unbd(rng, cfg); break;
    default: lp = gen_free(rng, cfg);
  }
  if (cfg.dyadicScale) apply_dyadic(rng, lp);
  return lp;
}

}  // namespace model
