#include "gen.h"
#include "simcore.h"
namespace sim {
static std::string I(long v) { return std::to_string(v); }

Op swarm_params(Rng& rng, const std::string& obj, bool rational, bool allowTimerOff) {
  Op s; s.obj = obj; s.name = "set";
  auto maybe = [&](double p, const std::string& k, const std::string& v) { if (rng.chance(p)) s.set(k, v); };
  maybe(0.7, "int:representation", I(rng.range(0, 2)));
  maybe(0.7, "int:algorithm", I(rng.range(0, 1)));
  maybe(0.7, "int:simplifier", I(rng.pick({0, 0, 3, 3, 1})));
  maybe(0.8, "int:scaler", I(rng.range(0, 6)));
  maybe(0.5, "bool:persistentscaling", I(rng.range(0, 1)));
  maybe(0.6, "int:pricer", I(rng.range(0, 5)));
  maybe(0.6, "int:ratiotester", I(rng.range(0, 3)));
  maybe(0.4, "int:starter", I(rng.range(0, 3)));
  maybe(0.4, "int:factor_update_type", I(rng.range(0, 1)));
  maybe(0.5, "int:factor_update_max", I(rng.pick({0, 1, 2, 3, 5, 20})));
  maybe(0.3, "int:hyperpricing", I(rng.range(0, 2)));
  maybe(0.3, "int:solution_polishing", I(rng.range(0, 2)));
  maybe(0.3, "bool:ensureray", I(rng.range(0, 1)));
  maybe(0.2, "bool:fullperturbation", I(rng.range(0, 1)));
  maybe(0.2, "bool:rowboundflips", I(rng.range(0, 1)));
  maybe(0.7, "int:timer", I(allowTimerOff ? rng.pick({0, 1, 1, 2, 2}) : rng.pick({1, 2})));
  maybe(0.5, "seed:seed", I((long)rng.below(1000)));
  maybe(0.15, "int:multiprecision_limit", I(rng.range(50, 2000)));
  maybe(0.15, "int:storeBasisSimplexFreq", I(rng.range(1, 20000)));
  if (rational) {
    s.set("int:solvemode", "2"); s.set("int:syncmode", "1"); s.set("int:readmode", "1"); s.set("int:checkmode", "2");
    s.set("real:feastol", "0"); s.set("real:opttol", "0");
    maybe(0.3, "bool:ratrec", I(rng.range(0, 1)));
    maybe(0.3, "bool:ratfac", I(rng.range(0, 1)));
    maybe(0.3, "bool:eqtrans", I(rng.range(0, 1)));
    maybe(0.3, "bool:testdualinf", I(rng.range(0, 1)));
    maybe(0.3, "bool:forcebasic", I(rng.range(0, 1)));
    maybe(0.3, "bool:ratfacjump", I(rng.range(0, 1)));
    maybe(0.3, "bool:precision_boosting", I(rng.range(0, 1)));
    maybe(0.2, "bool:recovery_mechanism", I(rng.range(0, 1)));
    maybe(0.2, "bool:iterative_refinement", "1");
    maybe(0.2, "int:ratfac_minstalls", I(rng.range(0, 3)));
  } else {
    s.set("int:solvemode", "0");
  }
  return s;
}

static Op stop_op(Rng& rng, const std::string& obj, bool rational) {
  Op o; o.obj = obj; o.name = "optimize";
  int kind = rng.range(0, 99);
  auto smallk = [&]() -> long { return rng.chance(0.6) ? (long)rng.range(0, 5) : (long)rng.range(0, 40); };
  if (kind < 28) { o.set("stop", "iter"); o.seti("k", smallk()); }
  else if (kind < 52) { o.set("stop", "clock"); o.seti("k", rng.chance(0.5) ? (long)rng.range(0, 12) : (long)rng.range(0, 400)); o.set("limit", rng.chance(0.1) ? "0" : rng.pick({"1000", "5", "100000"})); }
  else if (kind < 70) { o.set("stop", "intr_point"); o.seti("k", smallk()); if (rng.chance(0.15)) o.seti("lower_after", rng.range(0, 3)); }
  else if (kind < 76) { o.set("stop", "intr_log"); o.seti("k", rng.range(0, 30)); }
  else if (kind < 82) { o.set("stop", "intr_read"); o.seti("k", rng.range(0, 60)); }
  else if (kind < 94) { o.set("stop", "objlim"); o.set("side", rng.chance(0.5) ? "upper" : "lower");
    long num = rng.range(-8, 8), den = rng.pick({1, 1, 2, 4}); o.set("delta", I(num) + "/" + I(den)); }
  else if (rational) { o.set("stop", rng.chance(0.5) ? "reflimit" : "stallref"); o.seti("k", rng.range(0, 3)); }
  else { o.set("stop", "iter"); o.seti("k", 0); }
  return o;
}

Plan gen_stop(uint64_t seed, const GenOpts& g) {
  Plan p; p.seed = seed; p.engine = "stop";
  Rng rng(mix(seed, 0x5709));
  bool thorough = g.tier == "thorough";
  bool rational = rng.chance(thorough ? 0.2 : 0.12);
  model::GenCfg gc;
  gc.klass = rng.pick({0, 0, 1, 1, 1, 2, 3});
  int big = thorough ? 14 : 9;
  gc.maxRows = rational ? rng.range(2, 6) : rng.range(2, rng.chance(0.15) ? big + 6 : big);
  gc.maxCols = rational ? rng.range(2, 6) : rng.range(2, rng.chance(0.15) ? big + 6 : big);
  gc.fractions = rational && rng.chance(0.7);
  gc.dyadicScale = !rational && rng.chance(0.25);
  Rng lrng = rng.fork(1);
  p.lps.push_back(model::generate(lrng, gc));
  p.cfg["clock"] = I(rng.pick({(int)CLK_MIXED, (int)CLK_MIXED, (int)CLK_SUBTICK, (int)CLK_TICK, (int)CLK_ZERO}));
  if (rng.chance(0.3)) { p.cfg["bugmask"] = I(rng.range(1, 7)); p.cfg["bugp"] = rng.pick({"0.2", "0.5", "1.0"}); p.cfg["bugbudget"] = I(rng.range(1, 3)); p.cfg["bugseed"] = I((long)rng.below(1 << 20)); }
  bool logs = rng.chance(0.35);
  if (logs) p.cfg["logsink"] = "1";
  Op n; n.obj = "A"; n.name = "new"; p.ops.push_back(n);
  Op sw = swarm_params(rng, "A", rational, false);
  if (logs) { sw.set("int:verbosity", I(rng.range(3, 5))); sw.set("int:displayfreq", I(rng.pick({1, 1, 2, 10}))); }
  p.ops.push_back(sw);
  Op ld; ld.obj = "A"; ld.name = "load"; ld.set("lp", "0"); ld.set("via", rational || rng.chance(0.1) ? "rational" : "real"); p.ops.push_back(ld);
  int rounds = rng.range(1, 3);
  for (int r = 0; r < rounds; r++) {
    if (rng.chance(0.12)) { Op o; o.obj = "A"; o.name = "optimize"; p.ops.push_back(o); }   // a complete solve first: the stop lands on a warm start
    p.ops.push_back(stop_op(rng, "A", rational));
    if (rng.chance(0.3)) { if (rng.chance(0.5)) { Op l; l.obj = "A"; l.name = "lift"; p.ops.push_back(l); } p.ops.push_back(stop_op(rng, "A", rational)); }   // stop during resume
    if (rng.chance(0.25)) { Op q; q.obj = "A"; q.name = "query"; q.set("what", "basis"); p.ops.push_back(q); }
    Op l; l.obj = "A"; l.name = "lift"; p.ops.push_back(l);
    if (!rational && rng.chance(0.1)) { Op s; s.obj = "A"; s.name = "set"; s.set("int:algorithm", I(rng.range(0, 1))); p.ops.push_back(s); }
    Op o; o.obj = "A"; o.name = "optimize"; p.ops.push_back(o);
  }
  return p;
}
}  // namespace sim
