// Plan executor: runs a plan against the SUT under the simulator and evaluates oracles.
#pragma once
#include <map>
#include <set>
#include <memory>
#include <ostream>
#include "plan.h"
#include "simcore.h"
#include "sut_iface.h"
#include "lpmodel.h"
#include "refsimplex.h"

namespace sim {

struct Violation {
  std::string prop, oracle, detail;
  std::map<std::string, std::string> ctx;
  int op_index = -1;
  std::string key() const { return prop + "/" + oracle; }
};

struct RunResult {
  uint64_t seed = 0;
  uint64_t digest = 0;          // event + observation digest of the whole run
  std::vector<Violation> viol;
  std::map<std::string, long> counters;
  std::map<std::string, uint64_t> obj_digest;   // per object observation digest
  uint64_t nevents = 0;
  double vtime = 0;             // simulated seconds covered
  bool nontrivial = false;      // a fault fired or a monitored branch was reached
  int ops_done = 0;
  std::vector<int> sched_trace;
};

struct KnownPredicate {          // from known_findings.jsonl: calls matching an entry with skip=true are not executed by workers
  std::string prop, oracle; std::map<std::string, std::string> when, avoid; bool skip = false; std::string what; std::string status;
};

struct ExecOpts {
  std::set<std::string> props;        // oracles to evaluate (empty = all)
  std::string scratch;                // simulated disk directory
  std::vector<KnownPredicate> known;
  bool sacrificial = false;           // perform calls even if a known predicate with skip matches
  bool want(const char* p) const { return props.empty() || props.count(p) > 0; }
  bool tsan = false;
  bool verbose = false;
};

struct ParamModel {
  std::vector<bool> b; std::vector<int> i; std::vector<double> r; unsigned seed = 0;
  void reset();
};

struct RefCache { bool valid = false; std::string key; model::RefResult res; };

struct Obj {
  std::string name;
  std::unique_ptr<sut::Sut> s;
  model::LP lp;                  // exact model of the LP as entered (rational LP); real LP = its double image
  ParamModel pm;
  RefCache refReal, refRat;
  bool stopped_since_change = false;   // an aborted solve happened and the model was not changed since
  bool buggified_since_change = false;
  bool solved_ok = false;              // last optimize returned a final status with no stop
  int last_status = 0;
  bool ever_rational = false;
  uint64_t obs = 0xcbf29ce484222325ull;
  int owner_task = 0;
  bool handed = false;
  volatile int slot = 0;               // TSan hand-over slot
  long optimize_calls = 0;
  bool inconsistent = false;           // a reader accepted an LP that is not self-consistent (already reported): do not solve it
  bool untrusted_model = false;        // the LP came from a faulted file and contains non-finite numbers: no verdict oracles
  bool modified_since_solve = false;   // the LP was modified after the last solve (the next solve is a warm start on a changed LP)
  bool user_basis = false;             // the current basis was set by the user (setBasis/readBasis), not produced by a solve
  bool free_row_nonbasic = false;      // at the start of the last optimize a free row (-inf,inf) was nonbasic
  // last returned basis (for reuse checks)
  std::vector<int> lastRows, lastCols;
  std::vector<int> savedRows, savedCols; std::string savedBasisName;   // basis at the time of the last writeBasisFile
  std::unique_ptr<LogBuf> logbuf; std::unique_ptr<std::ostream> logstream;
};

class Executor {
 public:
  Executor(const Plan& p, const ExecOpts& o);
  ~Executor();
  RunResult run();
  // helpers used by generators too
  static void load_model(sut::Sut& s, const model::LP& lp, bool viaRational, double infty);
  static model::LP real_image(const model::LP& lp);
  static const model::RefResult& ref_of(Obj& o, bool rational);
 private:
  const Plan& plan_;
  ExecOpts opt_;
  RunResult res_;
  std::map<std::string, std::unique_ptr<Obj>> objs_;
  std::vector<TaskCtx> tasks_;
  Sched sched_;
  int cur_op_ = -1;
  Rng orng_{7};        // oracle randomness (random vectors), derived from the seed, independent of schedule

  void run_task(int task);
  void exec_op(int idx, const Op& op, TaskCtx& t);
  Obj* obj(const std::string& n);
  void viol(const char* prop, const char* oracle, const std::string& detail, const std::map<std::string, std::string>& ctx = {});
  const char* basis_prop_ = "C04";   // property under which check_basis() reports (C13 when a faulted basis file was accepted)
  bool known_skip(const char* prop, const char* oracle, const std::map<std::string, std::string>& ctx);
  void count(const std::string& k, long d = 1) { res_.counters[k] += d; }
  void observe(Obj& o, const void* p, size_t n);
  void observe_i(Obj& o, long long v) { observe(o, &v, 8); }
  void observe_d(Obj& o, double v) { observe(o, &v, 8); }

  // op handlers
  void op_new(const Op&, TaskCtx&); void op_load(const Op&, TaskCtx&); void op_set(const Op&, TaskCtx&);
  void op_optimize(const Op&, TaskCtx&); void op_lift(const Op&, TaskCtx&);
  void op_copy(const Op&, TaskCtx&); void op_destroy(const Op&, TaskCtx&);
  void op_clearbasis(const Op&, TaskCtx&); void op_modify(const Op&, TaskCtx&);
  void op_query(const Op&, TaskCtx&);
  void op_file(const Op&, TaskCtx&);

  // oracles
  void check_after_optimize(Obj& o, const Op& op, int status, bool stopped, const std::string& stopkind, long k, TaskCtx& t, bool guard_ref, bool bugs_fired);
  int twin_solve(Obj& o, TaskCtx& t, double* objval);
  void check_verdict_real(Obj& o, int status, bool complete_expected, const std::vector<std::string>& also);
  void check_verdict_rational(Obj& o, int status, bool complete_expected);
  void check_basis(Obj& o, bool from_solve);
  void check_inverse(Obj& o);
  void check_accessors(Obj& o);
  void check_params(Obj& o);
  void check_loaded_lp(Obj& o, const std::string& what);
  void check_sync(Obj& o);
  void check_ratinverse(Obj& o);
  void op_param(const Op& op, Obj& o);
  void op_setbasis(const Op& op, Obj& o);
  void observe_solution(Obj& o);
  std::map<std::string, std::string> ctx_of(Obj& o);
  friend struct ExecAccess;
};

std::string repname(int rep);
void tsan_acquire_slot(volatile int* p);
void tsan_release_slot(volatile int* p);
}  // namespace sim
