// Exact reference model of an LP (GMP rationals) + seeded generators + text form.
#pragma once
#include <gmpxx.h>
#include <string>
#include <vector>
#include <cmath>
#include "prng.h"

namespace model {
typedef mpq_class Q;

// extended rational: inf = -1 (-infinity), 0 (finite v), +1 (+infinity)
struct Ext {
  int inf = 0;
  Q v = 0;
  Ext() {}
  Ext(const Q& q) : inf(0), v(q) {}
  Ext(long n) : inf(0), v(n) {}
  static Ext pinf() { Ext e; e.inf = 1; return e; }
  static Ext ninf() { Ext e; e.inf = -1; return e; }
  bool finite() const { return inf == 0; }
  bool operator==(const Ext& o) const { return inf == o.inf && (inf != 0 || v == o.v); }
  bool operator!=(const Ext& o) const { return !(*this == o); }
  bool operator<(const Ext& o) const { if (inf != o.inf) return inf < o.inf; return inf == 0 && v < o.v; }
  bool operator<=(const Ext& o) const { return *this < o || *this == o; }
  std::string str() const { return inf > 0 ? "inf" : inf < 0 ? "-inf" : v.get_str(); }
  static Ext parse(const std::string& s);
};

Q q_from_double(double d);                 // exact
double q_to_double_trunc(const Q& q);      // mpq_get_d (toward zero)
double q_to_double_nearest(const Q& q);    // round to nearest
// d is one of the (at most two) doubles bracketing q
bool double_is_image(const Q& q, double d);
double ext_to_double(const Ext& e, double infty);  // nearest
Ext ext_from_double(double d, double infty);
std::string qstr(const Q& q);

struct LP {
  int sense = -1;   // -1 minimize, +1 maximize (SoPlex convention)
  Q offset = 0;
  std::vector<Q> obj;
  std::vector<Ext> lo, up;     // columns
  std::vector<Ext> lhs, rhs;   // rows
  std::vector<std::vector<Q>> A;  // [row][col]
  int nrows() const { return (int)lhs.size(); }
  int ncols() const { return (int)obj.size(); }
  int nnz() const;
  void clear() { obj.clear(); lo.clear(); up.clear(); lhs.clear(); rhs.clear(); A.clear(); }
  void addRow(const Ext& l, const std::vector<Q>& coefs, const Ext& r);   // coefs.size()==ncols (longer ignored)
  void addCol(const Q& c, const Ext& l, const std::vector<Q>& coefs, const Ext& u);  // coefs.size()==nrows
  // removal with SoPlex's documented renumbering: the last element is moved into the hole, processed from the back?
  // (the exact rule is SoPlex's: see removeRows below)
  void removeRow(int i);
  void removeCol(int j);
  // perm[i] < 0 on input marks removal; on output perm[i] = new index or -1
  void removeRows(std::vector<int>& perm);
  void removeCols(std::vector<int>& perm);
  std::string text() const;                   // multi-line
  static bool parse(const std::string& txt, LP& out);
  bool boundsConsistent() const;              // lo<=up, lhs<=rhs
};

struct GenCfg {
  int maxRows = 8, maxCols = 8;
  int klass = 0;        // 0 free-form, 1 planted optimal, 2 planted infeasible, 3 planted unbounded
  bool fractions = false;   // thirds / sevenths (non-dyadic)
  bool dyadicScale = false; // multiply rows/cols by powers of two
  bool bigRatios = false;   // huge/tiny coefficient ratios (lifting)
  double density = 0.6;
  bool allowEmpty = true;   // empty rows/cols, duplicates, singletons
};
LP generate(sim::Rng& rng, const GenCfg& cfg);
Q gen_value(sim::Rng& rng, const GenCfg& cfg, int magnitude = 6);
}  // namespace model
