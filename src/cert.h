// Certificate checkers over the exact model. These are the trusted base of every verdict oracle.
#pragma once
#include "lpmodel.h"
#include <string>
namespace model {

// exact: is (x,y) an optimal primal-dual pair of lp?  y in SoPlex convention (redcost = c - A^T y).
// on success *z = c.x + offset. why receives the first failed condition.
bool exact_optimal(const LP& lp, const std::vector<Q>& x, const std::vector<Q>& y, Q* z, std::string* why);
// exact: does y prove infeasibility (sign convention: y_i>0 uses lhs, y_i<0 uses rhs)?
bool exact_farkas(const LP& lp, const std::vector<Q>& y, std::string* why);
// exact: x0 feasible and d an improving recession direction
bool exact_feasible(const LP& lp, const std::vector<Q>& x, std::string* why);
bool exact_ray(const LP& lp, const std::vector<Q>& d, std::string* why);

// toleranced versions for floating-point results (vectors are exact images of the returned doubles)
struct Tol { double feas = 1e-6, opt = 1e-6, slack = 10.0; };
// primal part: bounds and sides within tol, slack = A x within tol; returns false and why on violation
bool tol_primal(const LP& lp, const std::vector<Q>& x, const std::vector<Q>* slack, const Tol& t, std::string* why);
// dual part: redcost = c - A^T y within tol, sign conditions by bound type within tol
bool tol_dual(const LP& lp, const std::vector<Q>& y, const std::vector<Q>* redcost, const Tol& t, std::string* why);
// complementary slackness / gap: dual objective vs primal objective within tol (uses x for activity-based side choice)
bool tol_gap(const LP& lp, const std::vector<Q>& x, const std::vector<Q>& y, const Tol& t, std::string* why);
bool tol_farkas(const LP& lp, const std::vector<Q>& y, const Tol& t, std::string* why);
bool tol_ray(const LP& lp, const std::vector<Q>& d, const Tol& t, std::string* why);
Q objective(const LP& lp, const std::vector<Q>& x);   // c.x + offset

// exact basis matrix helpers: bind[i] >= 0 column index, < 0 slack of row -1-bind[i]
bool basis_matrix(const LP& lp, const std::vector<int>& bind, std::vector<std::vector<Q>>& B);  // false if malformed
bool exact_inverse(const std::vector<std::vector<Q>>& B, std::vector<std::vector<Q>>& inv);     // false if singular
}  // namespace model
