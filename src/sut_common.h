// private to sut_*.cpp
#pragma once
#ifndef SOPLEX_VERIF_HOOKS
#error "build with -DSOPLEX_VERIF_HOOKS"
#endif
#include "soplex.h"
#include "sut_iface.h"
#include <typeinfo>
#include <sstream>

struct SoplexVerifPeek {
  static bool isRealLPLoaded(const soplex::SoPlex& s) { return s._isRealLPLoaded; }
  static bool isRealLPScaled(const soplex::SoPlex& s) { return s._isRealLPScaled; }
  static bool hasBasis(const soplex::SoPlex& s) { return s._hasBasis; }
  static int rowTypesSize(const soplex::SoPlex& s) { return s._rowTypes.size(); }
  static int colTypesSize(const soplex::SoPlex& s) { return s._colTypes.size(); }
  static int rowType(const soplex::SoPlex& s, int i) { return (int)s._rowTypes[i]; }
  static int colType(const soplex::SoPlex& s, int i) { return (int)s._colTypes[i]; }
  static int ratLUStatus(const soplex::SoPlex& s) { return (int)s._rationalLUSolver.status(); }
  static bool solverIsScaled(const soplex::SoPlex& s) { return s._solver.isScaled(); }
  static int solverRep(const soplex::SoPlex& s) { return (int)s._solver.rep(); }
  static int optimizeCalls(const soplex::SoPlex& s) { return s._optimizeCalls; }
  static int unscaleCalls(const soplex::SoPlex& s) { return s._unscaleCalls; }
};

namespace sut {
using namespace soplex;
inline SoPlex& SP(void* p) { return *static_cast<SoPlex*>(p); }
inline const SoPlex& SP(const void* p) { return *static_cast<const SoPlex*>(p); }
struct Names {
  NameSet rows, cols; bool valid = false;
  Names() {}
  void copyFrom(const Names& o) {
    rows.clear(); cols.clear();
    for (int i = 0; i < o.rows.num(); i++) rows.add(o.rows[i]);
    for (int i = 0; i < o.cols.num(); i++) cols.add(o.cols[i]);
    valid = o.valid;
  }
 private:
  Names(const Names&); Names& operator=(const Names&);
};

inline Rational toR(const Q& q) { Rational r; mpq_set(r.backend().data(), q.get_mpq_t()); return r; }
inline Q fromR(const Rational& r) { Q q; mpq_set(q.get_mpq_t(), r.backend().data()); return q; }

[[noreturn]] inline void rethrow_as_exc() {
  try { throw; }
  catch (const Exc&) { throw; }
  catch (const SPxException& e) { throw Exc{std::string("SPxException: ") + e.what()}; }
  catch (const std::exception& e) { throw Exc{std::string(typeid(e).name()) + ": " + e.what()}; }
  catch (...) { throw Exc{"unknown exception"}; }
}
#if defined(__SANITIZE_THREAD__)
extern "C" { void AnnotateIgnoreReadsBegin(const char*, int); void AnnotateIgnoreReadsEnd(const char*, int); void AnnotateIgnoreWritesBegin(const char*, int); void AnnotateIgnoreWritesEnd(const char*, int); }
extern thread_local int tsan_ignoring;   // > 0: this thread is a task thread currently ignoring accesses
struct TsanWindow {
  bool on;
  TsanWindow() : on(tsan_ignoring > 0) { if (on) { AnnotateIgnoreReadsEnd(__FILE__, __LINE__); AnnotateIgnoreWritesEnd(__FILE__, __LINE__); tsan_ignoring = 0; } }
  ~TsanWindow() { if (on) { AnnotateIgnoreReadsBegin(__FILE__, __LINE__); AnnotateIgnoreWritesBegin(__FILE__, __LINE__); tsan_ignoring = 1; } }
};
#else
struct TsanWindow { };
#endif
// triage aid: SUT_TRACE=1 in the environment prints every call that enters SoPlex through this layer (replays only; never read by a check)
inline bool sut_trace_on() { static const bool on = getenv("SUT_TRACE") != nullptr; return on; }
#define SUT_TRY try { if (sut_trace_on()) fprintf(stderr, "[api] %s\n", __func__); TsanWindow tsan_window_; (void)tsan_window_;
#define SUT_END } catch (...) { rethrow_as_exc(); }

inline DSVector toDS(const SVec& v) { DSVector d((int)v.idx.size() + 1); for (size_t k = 0; k < v.idx.size(); k++) d.add(v.idx[k], v.val[k]); return d; }
inline DSVectorRational toDSQ(const SVecQ& v) { DSVectorRational d((int)v.idx.size() + 1); for (size_t k = 0; k < v.idx.size(); k++) d.add(v.idx[k], toR(v.val[k])); return d; }
}  // namespace sut
