// Plan generators, one per engine. A generator may use the SUT (deterministically) to size its faults.
#pragma once
#include "plan.h"
namespace sim {
struct GenOpts { std::string tier = "quick"; std::string prop; };
Plan gen_stop(uint64_t seed, const GenOpts& g);
Plan gen_hist(uint64_t seed, const GenOpts& g);
Plan gen_file(uint64_t seed, const GenOpts& g);
Plan gen_thr(uint64_t seed, const GenOpts& g);
Plan gen_exact(uint64_t seed, const GenOpts& g);
Plan generate_plan(const std::string& engine, uint64_t seed, const GenOpts& g);
// swarm: random SoPlex algorithmic parameters as a 'set' op
Op swarm_params(Rng& rng, const std::string& obj, bool rational, bool allowTimerOff);
}  // namespace sim
