// facade part B: solving, solutions, basis, basis-inverse queries (real)
#include "sut_common.h"
#include <climits>
namespace sut {
int Sut::optimize(volatile bool* interrupt) { SUT_TRY return (int)SP(p_).optimize(interrupt); SUT_END }
int Sut::status() const { return (int)SP(p_).status(); }
int Sut::numIterations() const { return SP(p_).numIterations(); }
int Sut::numRefinements() const { return SP(p_).numRefinements(); }
int Sut::numPrecisionBoosts() const { return SP(p_).numPrecisionBoosts(); }
double Sut::solveTime() const { return SP(p_).solveTime(); }
bool Sut::hasSol() const { return SP(p_).hasSol(); }
bool Sut::hasBasis() const { return SP(p_).hasBasis(); }
bool Sut::isPrimalFeasible() const { return SP(p_).isPrimalFeasible(); }
bool Sut::isDualFeasible() const { return SP(p_).isDualFeasible(); }
bool Sut::hasPrimalRay() const { return SP(p_).hasPrimalRay(); }
bool Sut::hasDualFarkas() const { return SP(p_).hasDualFarkas(); }
double Sut::objValue() { SUT_TRY return SP(p_).objValueReal(); SUT_END }
static bool getv(SoPlex& s, bool (SoPlex::*f)(VectorReal&), int dim, std::vector<double>& out) {
  VectorReal v(dim); bool ok = (s.*f)(v); out.resize(dim); for (int i = 0; i < dim; i++) out[i] = v[i]; return ok; }
bool Sut::getPrimal(std::vector<double>& v) { SUT_TRY return getv(SP(p_), &SoPlex::getPrimal, numCols(), v); SUT_END }
bool Sut::getSlacks(std::vector<double>& v) { SUT_TRY return getv(SP(p_), &SoPlex::getSlacksReal, numRows(), v); SUT_END }
bool Sut::getDual(std::vector<double>& v) { SUT_TRY return getv(SP(p_), &SoPlex::getDual, numRows(), v); SUT_END }
bool Sut::getRedCost(std::vector<double>& v) { SUT_TRY return getv(SP(p_), &SoPlex::getRedCost, numCols(), v); SUT_END }
bool Sut::getPrimalRay(std::vector<double>& v) { SUT_TRY return getv(SP(p_), &SoPlex::getPrimalRay, numCols(), v); SUT_END }
bool Sut::getDualFarkas(std::vector<double>& v) { SUT_TRY return getv(SP(p_), &SoPlex::getDualFarkas, numRows(), v); SUT_END }
bool Sut::getBoundViolation(double& mx, double& sum) { SUT_TRY return SP(p_).getBoundViolation(mx, sum); SUT_END }
bool Sut::getRowViolation(double& mx, double& sum) { SUT_TRY return SP(p_).getRowViolation(mx, sum); SUT_END }

int Sut::basisStatus() const { return (int)SP(p_).basisStatus(); }
int Sut::basisRowStatus(int i) const { SUT_TRY return (int)SP(p_).basisRowStatus(i); SUT_END }
int Sut::basisColStatus(int j) const { SUT_TRY return (int)SP(p_).basisColStatus(j); SUT_END }
void Sut::getBasis(std::vector<int>& rows, std::vector<int>& cols) const {
  SUT_TRY
  int m = numRows(), n = numCols();
  std::vector<SPxSolver::VarStatus> r(m + 1), c(n + 1);
  SP(p_).getBasis(r.data(), c.data());
  rows.resize(m); cols.resize(n);
  for (int i = 0; i < m; i++) rows[i] = (int)r[i];
  for (int j = 0; j < n; j++) cols[j] = (int)c[j];
  SUT_END }
void Sut::setBasis(const std::vector<int>& rows, const std::vector<int>& cols) {
  SUT_TRY
  std::vector<SPxSolver::VarStatus> r(rows.size() + 1), c(cols.size() + 1);
  for (size_t i = 0; i < rows.size(); i++) r[i] = (SPxSolver::VarStatus)rows[i];
  for (size_t j = 0; j < cols.size(); j++) c[j] = (SPxSolver::VarStatus)cols[j];
  SP(p_).setBasis(r.data(), c.data());
  SUT_END }
void Sut::clearBasis() { SUT_TRY SP(p_).clearBasis(); SUT_END }
void Sut::getBasisInd(std::vector<int>& bind, int capacity) const {
  SUT_TRY bind.assign(capacity, INT_MIN); SP(p_).getBasisInd(bind.data()); SUT_END }
bool Sut::basisInverseRow(int r, std::vector<double>& coef, std::vector<int>* inds, bool unscale) {
  SUT_TRY int m = numRows(); coef.assign(m, 0.0); int n = -1; std::vector<int> ib(m + 1, -1);
  bool ok = SP(p_).getBasisInverseRowReal(r, coef.data(), inds ? ib.data() : nullptr, inds ? &n : nullptr, unscale);
  if (inds) { if (n < 0) inds->assign(1, -1); else inds->assign(ib.begin(), ib.begin() + std::min(n, m)); }
  return ok; SUT_END }
bool Sut::basisInverseCol(int c, std::vector<double>& coef, std::vector<int>* inds, bool unscale) {
  SUT_TRY int m = numRows(); coef.assign(m, 0.0); int n = -1; std::vector<int> ib(m + 1, -1);
  bool ok = SP(p_).getBasisInverseColReal(c, coef.data(), inds ? ib.data() : nullptr, inds ? &n : nullptr, unscale);
  if (inds) { if (n < 0) inds->assign(1, -1); else inds->assign(ib.begin(), ib.begin() + std::min(n, m)); }
  return ok; SUT_END }
bool Sut::basisInverseTimesVec(const std::vector<double>& rhs, std::vector<double>& sol, bool unscale) {
  SUT_TRY std::vector<double> r(rhs); sol.assign(numRows(), 0.0); return SP(p_).getBasisInverseTimesVecReal(r.data(), sol.data(), unscale); SUT_END }
bool Sut::multBasis(std::vector<double>& vec, bool unscale) { SUT_TRY return SP(p_).multBasis(vec.data(), unscale); SUT_END }
bool Sut::multBasisTranspose(std::vector<double>& vec, bool unscale) { SUT_TRY return SP(p_).multBasisTranspose(vec.data(), unscale); SUT_END }
}  // namespace sut
