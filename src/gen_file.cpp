// filesim: files travel over the simulated disk; restart = a new solver object that sees only the files.
#include "gen.h"
#include "simcore.h"
#include <fstream>
#include <sstream>
namespace sim {
static std::string I(long v) { return std::to_string(v); }
static Op mk(const std::string& obj, const std::string& name) { Op o; o.obj = obj; o.name = name; return o; }
static Op fop(const std::string& obj, const std::string& what) { Op o; o.obj = obj; o.name = "file"; o.set("do", what); return o; }
static std::string slurp(const std::string& f) { std::ifstream in(f, std::ios::binary); std::stringstream ss; ss << in.rdbuf(); return ss.str(); }

static Op fault_op(Rng& rng, const std::string& name, const std::string& ext) {
  Op f = fop("", "fault"); f.set("name", name); f.set("ext", ext);
  static const char* kinds[] = {"truncate", "truncate", "truncate", "tearzero", "flipbit", "flipbit", "setbyte", "nul", "dupline", "dropline", "longtoken", "longline", "hugeexp", "gz", "gztrunc", "empty", "lose", "insert", "insline"};
  std::string k = kinds[rng.below(sizeof kinds / sizeof kinds[0])];
  // record-structured files (basis, settings): losing, repeating or corrupting one record is the fault that keeps the file parseable
  if ((ext == ".bas" || ext == ".set") && rng.chance(0.5)) k = rng.pick({std::string("dupline"), std::string("dropline"), std::string("dupline"), std::string("dropline"), std::string("setbyte")});
  // bit rot inside one record of a basis file: the status indicator turns into another valid one
  if (ext == ".bas" && rng.chance(0.25)) k = "basrec";
  f.set("fkind", k); f.seti("a", (long)rng.below(1 << 20));
  if (k == "basrec") f.seti("b", rng.range(0, 3));
  if (k == "flipbit") f.seti("b", rng.range(0, 7));
  if (k == "setbyte") f.seti("b", rng.pick({0, 9, 10, 13, 32, 45, 46, 58, 60, 61, 62, 43, 255, 69, 101, 47}));
  if (k == "longtoken") { f.seti("b", rng.pick({200, 300, 8190, 8192, 8193, 9000, 20000})); f.seti("c", rng.pick({(int)'x', (int)'1', (int)'-', (int)'e', (int)'9'})); }
  if (k == "longline") f.seti("b", rng.pick({250, 257, 8190, 8193, 20000}));
  if (k == "insert") f.set("hex", hex_encode(rng.pick({std::string("\n"), std::string("  "), std::string("RANGES\n"), std::string("BOUNDS\n"), std::string(" FR BND x\n"), std::string("End\n"), std::string("ENDATA\n"), std::string("free\n"), std::string(">= <="), std::string("1e"), std::string("/0"), std::string("\r\n"), std::string(" MARKER 'MARKER' 'INTORG'\n"), std::string("ROWS\n"), std::string("int:"), std::string("= \n")})));
  // a whole extra line at the start of the line that holds offset a: comment lines of the three formats and settings records with unusable values
  if (k == "insline") f.set("hex", hex_encode(rng.pick({std::string("              $ comment\n"), std::string("                                       $ comment\n"), std::string("* comment\n"), std::string("\\ comment\n"), std::string("    $ c\n"),
                                                        std::string("uint:random_seed = abc\n"), std::string("uint:random_seed = 99999999999999999999999\n"), std::string("int:iterlimit = 99999999999\n"), std::string("real:feastol = 1e9999\n"), std::string("bool:lifting = maybe\n"), std::string("uint:random_seed = -1\n"),
                                                        std::string(" UP BND       x1        -0.0\n"), std::string(" c9: -0.0 x1 >= -0.0\n"), std::string("# comment\n")})));
  // LP format: a section keyword in the wrong place makes the reader take the following constraint or bound lines as entries of that section (generated files have no integer sections of their own)
  if (k == "insline" && ext == ".lp" && rng.chance(0.4)) f.set("hex", hex_encode(rng.pick({std::string("Generals\n"), std::string("Binaries\n"), std::string("General\n"), std::string("Binary\n"), std::string("Integers\n"), std::string("Bounds\n"), std::string("Subject To\n"), std::string("Generals\n x1 <= 3\n"), std::string("Binaries\n x.1\n")})));
  // MPS files end with RHS/RANGES/BOUNDS, the sections with the least travelled parsing code: half of the extra lines for .mps go into the last quarter of the file as a fixed-format comment
  if (k == "insline" && ext == ".mps" && rng.chance(0.5)) { f.seti("tail", 1); f.set("hex", hex_encode(rng.pick({std::string("              $ comment\n"), std::string("                                       $ comment\n"), std::string("              $\n")}))); }
  return f;
}

Plan gen_file(uint64_t seed, const GenOpts& g) {
  Plan p; p.seed = seed; p.engine = "file";
  Rng rng(mix(seed, 0xF11E));
  const std::string& prop = g.prop;
  // scenario weights depend on the property that is being checked
  int sc;
  if (prop == "C12") sc = 0; else if (prop == "C13") sc = rng.pick({1, 1, 1, 2, 2, 3}); else if (prop == "C14") sc = rng.pick({4, 4, 5}); else if (prop == "C15") sc = 6; else if (prop == "C04") sc = rng.pick({2, 4, 5});
  else sc = rng.range(0, 6);
  model::GenCfg gc; gc.klass = rng.pick({0, 0, 1, 1, 2, 3}); gc.maxRows = rng.range(1, 8); gc.maxCols = rng.range(1, 8);
  bool rational = (sc == 0 || sc == 1) && rng.chance(0.4);
  gc.fractions = rational; gc.dyadicScale = !rational && rng.chance(0.2);
  gc.allowEmpty = rng.chance(0.7);
  Rng lr = rng.fork(1);
  p.lps.push_back(model::generate(lr, gc));
  p.cfg["clock"] = I(CLK_SUBTICK);
  p.ops.push_back(mk("A", "new"));
  Op sw = swarm_params(rng, "A", false, true);
  if (rational) { sw.set("int:syncmode", "1"); sw.set("int:readmode", "1"); }
  p.ops.push_back(sw);
  Op ld = mk("A", "load"); ld.set("lp", "0"); ld.set("via", rational ? "rational" : "real"); p.ops.push_back(ld);
  std::string kind = rng.chance(0.5) ? "lp" : "mps";
  std::string ext = "." + kind;
  if (sc == 0) {
    // C12 round trips, plain and gz, plus chunked stream delivery of the written bytes
    int n = rng.range(1, 3);
    for (int k = 0; k < n; k++) {
      kind = rng.chance(0.5) ? "lp" : "mps";
      Op r = fop("A", "roundtrip"); r.set("kind", kind); r.set("name", "rt" + I(k)); r.seti("rational", rational ? 1 : 0); r.seti("names", rng.range(0, 1)); r.seti("readnames", rng.range(0, 1)); r.seti("gz", rng.chance(0.25)); p.ops.push_back(r);
      if (!r.geti("gz")) { Op s = fop("", "streamread"); s.set("name", "rt" + I(k)); s.set("ext", "." + kind); s.seti("rational", rational ? 1 : 0); s.seti("chunk", rng.pick({1, 1, 2, 7, 255, 256, 257, 4096, 8191, 8192, 8193})); p.ops.push_back(s); }
      if (rng.chance(0.3)) { Op o = mk("A", "optimize"); p.ops.push_back(o); }   // persistent scaling active while writing
    }
  } else if (sc == 1) {
    // C13: LP / MPS files with at-rest faults, read by a restarted object, then the fixed post-read sequence
    bool shipped = rng.chance(0.3);
    if (shipped) {
      std::string fn = rng.pick({std::string("afiro.lp"), std::string("afiro.mps"), std::string("galenet.mps"), std::string("sc50b.mps")});
      std::string repo = getenv("VERIF_REPO") ? getenv("VERIF_REPO") : "/repo";
      p.blobs.push_back(slurp(repo + "/check/instances/" + fn));
      kind = fn.substr(fn.size() - 2) == "lp" ? "lp" : "mps"; ext = "." + kind;
      Op b = fop("", "blob"); b.set("name", "in"); b.set("ext", ext); b.set("blob", "0"); p.ops.push_back(b);
    } else {
      Op w = fop("A", "write"); w.set("kind", kind); w.set("name", "in"); w.seti("names", rng.range(0, 1)); w.seti("rational", rational ? 1 : 0); p.ops.push_back(w);
    }
    int nf = rng.range(1, 3);
    for (int k = 0; k < nf; k++) p.ops.push_back(fault_op(rng, "in", ext));
    std::string B = rng.chance(0.5) ? "A" : "B";
    if (B == "B") { p.ops.push_back(mk("B", "new")); if (rng.chance(0.5)) { Op s = mk("B", "set"); s.set("int:syncmode", "1"); s.set("int:readmode", I(rng.range(0, 1))); p.ops.push_back(s); } }
    else if (rng.chance(0.5)) p.ops.push_back(fop("A", "restart"));
    if (rng.chance(0.3)) { Op s = fop("", "streamread"); s.set("name", "in"); s.set("ext", ext); s.seti("rational", rng.range(0, 1)); s.seti("chunk", rng.pick({1, 3, 256, 8192})); if (rng.chance(0.4)) s.seti("failat", (long)rng.below(4000)); p.ops.push_back(s); }
    Op r = fop(B, "read"); r.set("kind", kind); r.set("name", "in"); r.set("ext", ext); r.seti("names", rng.range(0, 1)); r.seti("faulted", 1); p.ops.push_back(r);
    Op po = fop(B, "post"); po.set("good", "0"); p.ops.push_back(po);
  } else if (sc == 2) {
    // C13/C04: faulted basis file
    Op o = mk("A", "optimize"); if (rng.chance(0.3)) { o.set("stop", "iter"); o.seti("k", rng.range(0, 4)); } p.ops.push_back(o);
    Op w = fop("A", "write"); w.set("kind", "bas"); w.set("name", "b"); w.seti("names", rng.range(0, 1)); w.seti("cpx", rng.range(0, 1)); p.ops.push_back(w);
    int nf = rng.range(1, 2); for (int k = 0; k < nf; k++) p.ops.push_back(fault_op(rng, "b", ".bas"));
    p.ops.push_back(mk("A", "lift"));
    Op r = fop("A", "read"); r.set("kind", "bas"); r.set("name", "b"); r.seti("names", w.geti("names")); r.seti("faulted", 1); p.ops.push_back(r);
    if (rng.chance(0.6)) p.ops.push_back(mk("A", "optimize"));
    Op po = fop("A", "post"); po.set("good", "0"); p.ops.push_back(po);
  } else if (sc == 3) {
    // C13/C15: faulted settings file: every accepted line acts like its typed setter, every rejected line changes nothing
    Op w = fop("A", "write"); w.set("kind", "set"); w.set("name", "s"); w.seti("onlychanged", rng.range(0, 1)); p.ops.push_back(w);
    int nf = rng.range(1, 3); for (int k = 0; k < nf; k++) p.ops.push_back(fault_op(rng, "s", ".set"));
    std::string B = rng.chance(0.5) ? "A" : "B";
    if (B == "B") { p.ops.push_back(mk("B", "new")); Op l2 = mk("B", "load"); l2.set("lp", "0"); l2.set("via", "real"); p.ops.push_back(l2); }
    Op r = fop(B, "read"); r.set("kind", "set"); r.set("name", "s"); r.seti("faulted", 1); p.ops.push_back(r);
    Op q = mk(B, "query"); q.set("what", "accessors"); p.ops.push_back(q);
    Op po = fop(B, "post"); po.set("good", "0"); po.seti("strict", 0); p.ops.push_back(po);
  } else if (sc == 4 || sc == 5) {
    // C14: basis / state files restore what was saved
    int n = rng.range(1, 2);
    for (int k = 0; k < n; k++) {
      int how = rng.range(0, 9);
      if (how < 6) { Op o = mk("A", "optimize"); if (rng.chance(0.35)) { o.set("stop", rng.chance(0.7) ? "iter" : "clock"); o.seti("k", rng.range(0, 5)); } p.ops.push_back(o); if (o.has("stop")) p.ops.push_back(mk("A", "lift")); }
      else { Op sb = mk("A", "setbasis"); sb.seti("bseed", (long)rng.below(1 << 30)); p.ops.push_back(sb); }
      Op rt = fop("A", sc == 4 ? "basrt" : "statert"); rt.set("name", "st" + I(k)); rt.seti("names", rng.range(0, 1)); rt.seti("cpx", rng.range(0, 1));
      if (sc == 5 && rng.chance(0.35)) { rt.seti("crash_after", rng.range(0, 2)); rt.seti("stale", rng.range(0, 1)); rt.set("name", "st"); }
      if (sc == 5) rt.seti("keepprev", 1);
      p.ops.push_back(rt);
      if (sc == 4 && rng.chance(0.6)) {
        // the same object moves on to another basis (objective changed, re-solved), then reads its own file back
        int nm = rng.range(0, 1), cx = rng.range(0, 1);
        Op w = fop("A", "write"); w.set("kind", "bas"); w.set("name", "own" + I(k)); w.seti("names", nm); w.seti("cpx", cx); p.ops.push_back(w);
        int nmod = rng.range(1, 2); for (int q = 0; q < nmod; q++) { Op m = mk("A", "mod"); m.set("kind", rng.pick({"chgobjvec", "chgobj", "sense"})); m.seti("s", (long)rng.below(1 << 30)); p.ops.push_back(m); }
        if (rng.chance(0.8)) p.ops.push_back(mk("A", "optimize")); else if (rng.chance(0.5)) p.ops.push_back(mk("A", "clearbasis"));
        Op r = fop("A", "read"); r.set("kind", "bas"); r.set("name", "own" + I(k)); r.seti("names", nm); p.ops.push_back(r);
        if (rng.chance(0.5)) p.ops.push_back(mk("A", "optimize"));
      }
    }
  } else {
    // C15 over files: save -> restart -> load reproduces the parameters
    Op s2 = mk("A", "set");
    s2.set("real:feastol", rng.pick({"1e-7", "1e-5", "3e-7", "1.0000000000000001e-06"})); s2.set("real:timelimit", rng.pick({"1e100", "10", "0.5"}));
    s2.set("int:iterlimit", I(rng.pick({-1, 0, 17, 2147483647}))); s2.set("bool:lifting", I(rng.range(0, 1))); s2.set("real:objlimit_lower", rng.pick({"-1e100", "-5", "0.1"}));
    p.ops.push_back(s2);
    Op rt = fop("A", "setrt"); rt.set("name", "s"); rt.seti("onlychanged", rng.range(0, 1)); p.ops.push_back(rt);
  }
  return p;
}
}  // namespace sim
