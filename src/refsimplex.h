// Naive exact two-phase simplex (Bland) over GMP rationals. Every answer it gives is re-verified by cert
// before it is returned; an unverified answer becomes REF_UNKNOWN and is never used as an oracle.
#pragma once
#include "lpmodel.h"
namespace model {
enum RefStatus { REF_UNKNOWN = 0, REF_OPTIMAL = 1, REF_INFEASIBLE = 2, REF_UNBOUNDED = 3 };
struct RefResult {
  RefStatus status = REF_UNKNOWN;
  Q z;                       // optimum incl. offset (REF_OPTIMAL)
  std::vector<Q> x, y;       // vertex and row duals (SoPlex convention)   (REF_OPTIMAL); x also a feasible point for REF_UNBOUNDED
  std::vector<Q> farkas;     // REF_INFEASIBLE
  std::vector<Q> ray;        // REF_UNBOUNDED
  bool dual_infeasible = false;   // for REF_INFEASIBLE: an improving recession direction exists as well
  bool dual_known = false;
  bool feas_fragile = false;      // REF_OPTIMAL: shrinking every inequality by 1e-3 (relative) makes the LP infeasible
  bool bounded_fragile = false;   // REF_OPTIMAL: a recession direction of norm >= 1/2 loses less than 1e-3 of objective
  long pivots = 0;
  double margin = 0;         // robustness of the class against 1e-6 tolerances (see refsimplex.cpp); OPTIMAL: sum|y|+sum|r|
  double dualnorm = 0;       // sum|y_i| + sum|r_j| of the reference dual (REF_OPTIMAL)
  std::string note;
};
RefResult ref_solve(const LP& lp, long max_pivots = 20000);
const char* ref_name(RefStatus s);
}  // namespace model
