// Operation/fault plan = replay file. Text form: one record per line.
#pragma once
#include <string>
#include <vector>
#include <map>
#include <cstdint>
#include "lpmodel.h"

namespace sim {
struct Op {
  int task = 0;
  std::string obj;     // target object name
  std::string name;    // operation
  std::vector<std::pair<std::string, std::string>> kv;   // ordered key=value arguments
  bool has(const std::string& k) const { for (auto& p : kv) if (p.first == k) return true; return false; }
  std::string get(const std::string& k, const std::string& def = "") const { for (auto& p : kv) if (p.first == k) return p.second; return def; }
  long geti(const std::string& k, long def = 0) const { return has(k) ? atol(get(k).c_str()) : def; }
  void set(const std::string& k, const std::string& v) { for (auto& p : kv) if (p.first == k) { p.second = v; return; } kv.push_back({k, v}); }
  void seti(const std::string& k, long v) { set(k, std::to_string(v)); }
  void erase(const std::string& k) { for (size_t i = 0; i < kv.size(); i++) if (kv[i].first == k) { kv.erase(kv.begin() + i); return; } }
  std::string text() const;
};
struct Plan {
  uint64_t seed = 0;
  std::string engine;
  std::map<std::string, std::string> cfg;     // simulator configuration (clock profile, buggify, stickiness, ntasks ...)
  std::vector<model::LP> lps;                 // instances referenced by index
  std::vector<std::string> blobs;             // file seeds (text), referenced by index
  std::vector<Op> ops;
  std::vector<int> sched;                     // recorded schedule (multi-task replay)
  std::string cfgs(const std::string& k, const std::string& d = "") const { auto it = cfg.find(k); return it == cfg.end() ? d : it->second; }
  long cfgi(const std::string& k, long d = 0) const { auto it = cfg.find(k); return it == cfg.end() ? d : atol(it->second.c_str()); }
  double cfgd(const std::string& k, double d = 0) const { auto it = cfg.find(k); return it == cfg.end() ? d : atof(it->second.c_str()); }
  std::string text() const;
  static bool parse(const std::string& txt, Plan& out, std::string* err);
};
std::string hex_encode(const std::string& s);
std::string hex_decode(const std::string& s);
}  // namespace sim
