#include "exec.h"
#include "cert.h"
#include <sstream>
#include <cstring>
#include <cmath>
#include <climits>
#include <pthread.h>
#include <unistd.h>
#include <fstream>
#include <climits>

#if defined(__SANITIZE_THREAD__)
extern "C" void __tsan_acquire(void* addr);
extern "C" void __tsan_release(void* addr);
#define TSAN_ACQ(p) __tsan_acquire((void*)(p))
#define TSAN_REL(p) __tsan_release((void*)(p))
#else
#define TSAN_ACQ(p) ((void)0)
#define TSAN_REL(p) ((void)0)
#endif

namespace sim {
using model::Q; using model::Ext; using model::LP;

// ------------------------------------------------------------------ parameter name lookup
namespace P {
static int find(const std::vector<std::string>& v, const std::string& n) { for (size_t i = 0; i < v.size(); i++) if (v[i] == n) return (int)i; return -1; }
int b(const std::string& n) { return find(sut::param_info().bname, n); }
int i(const std::string& n) { return find(sut::param_info().iname, n); }
int r(const std::string& n) { return find(sut::param_info().rname, n); }
}
void tsan_acquire_slot(volatile int* p) { TSAN_ACQ(p); (void)p; }
void tsan_release_slot(volatile int* p) { TSAN_REL(p); (void)p; }
std::string repname(int rep) { return rep == 1 ? "COLUMN" : rep == 2 ? "ROW" : "AUTO"; }

void ParamModel::reset() {
  auto& pi = sut::param_info();
  b.assign(pi.bdef.begin(), pi.bdef.end()); i = pi.idef; r = pi.rdef;
}

static bool memcmp_d(double a, double b) { return memcmp(&a, &b, 8) != 0; }
static std::string dstr(double d) { char buf[64]; snprintf(buf, sizeof buf, "%.17g", d); return buf; }

// ------------------------------------------------------------------ executor basics
Executor::Executor(const Plan& p, const ExecOpts& o) : plan_(p), opt_(o) {
  res_.seed = p.seed;
  orng_.reseed(mix(p.seed, 0x0AC1E));
}
Executor::~Executor() {}

Obj* Executor::obj(const std::string& n) { auto it = objs_.find(n); return it == objs_.end() ? nullptr : it->second.get(); }

void Executor::viol(const char* prop, const char* oracle, const std::string& detail, const std::map<std::string, std::string>& ctx) {
  if (!opt_.want(prop)) return;
  for (auto& v : res_.viol) if (v.prop == prop && v.oracle == oracle) return;   // one per (property, oracle) per run
  Violation v; v.prop = prop; v.oracle = oracle; v.detail = detail; v.ctx = ctx; v.op_index = cur_op_;
  res_.viol.push_back(v);
}
bool Executor::known_skip(const char* prop, const char* oracle, const std::map<std::string, std::string>& ctx) {
  if (opt_.sacrificial) return false;
  for (auto& k : opt_.known) {
    if (!k.skip || k.status == "fixed" || k.prop != prop || k.oracle != oracle) continue;
    bool all = true;
    for (auto& w : k.when) { auto it = ctx.find(w.first); if (it == ctx.end() || (std::string("|") + w.second + "|").find("|" + it->second + "|") == std::string::npos) { all = false; break; } }
    if (all) { count(std::string("skipped_known:") + prop + "/" + oracle); return true; }
  }
  return false;
}
void Executor::observe(Obj& o, const void* p, size_t n) {
  auto* b = (const unsigned char*)p; for (size_t i = 0; i < n; i++) { o.obs ^= b[i]; o.obs *= 0x100000001b3ull; }
}

std::map<std::string, std::string> Executor::ctx_of(Obj& o) {
  std::map<std::string, std::string> c;
  auto& s = *o.s;
  c["rep"] = s.peekRep() < 0 ? "ROW" : "COLUMN";
  c["repparam"] = repname(s.getInt(P::i("representation")));
  c["alg"] = s.getInt(P::i("algorithm")) ? "DUAL" : "PRIMAL";
  c["scaler"] = std::to_string(s.getInt(P::i("scaler")));
  c["persistent"] = s.getBool(P::b("persistentscaling")) ? "1" : "0";
  c["simplifier"] = std::to_string(s.getInt(P::i("simplifier")));
  c["solvemode"] = std::to_string(s.getInt(P::i("solvemode")));
  c["scaled"] = s.peekIsRealLPScaled() ? "1" : "0";
  c["stopped"] = o.stopped_since_change ? "1" : "0";
  c["nonbasic_free_row"] = o.free_row_nonbasic ? "1" : "0";
  c["polishing"] = std::to_string(s.getInt(P::i("solution_polishing")));
  { int m = s.getInt(P::i("solvemode")); c["exact"] = (m == 2 || (m == 1 && !(s.getReal(P::r("feastol")) >= 1e-9 && s.getReal(P::r("opttol")) >= 1e-9))) ? "1" : "0"; }
  c["update"] = s.getInt(P::i("factor_update_type")) == 0 ? "ETA" : "FT";
  c["rowboundflips"] = s.getBool(P::b("rowboundflips")) ? "1" : "0";
  c["ratiotester"] = std::to_string(s.getInt(P::i("ratiotester")));
  return c;
}

// ------------------------------------------------------------------ model helpers
LP Executor::real_image(const LP& lp) {
  LP r = lp;
  auto im = [](Q& q) { q = model::q_from_double(model::q_to_double_nearest(q)); };
  for (auto& v : r.obj) im(v);
  for (auto& e : r.lo) if (e.finite()) im(e.v);
  for (auto& e : r.up) if (e.finite()) im(e.v);
  for (auto& e : r.lhs) if (e.finite()) im(e.v);
  for (auto& e : r.rhs) if (e.finite()) im(e.v);
  for (auto& row : r.A) for (auto& v : row) if (v != 0) im(v);
  im(r.offset);
  return r;
}
const model::RefResult& Executor::ref_of(Obj& o, bool rational) {
  RefCache& c = rational ? o.refRat : o.refReal;
  std::string key = o.lp.text();
  if (!c.valid || c.key != key) {
    c.key = key; c.valid = true;
    c.res = model::ref_solve(rational ? o.lp : real_image(o.lp));
  }
  return c.res;
}
static sut::SVec rowvec(const LP& lp, int i) { sut::SVec v; for (int j = 0; j < lp.ncols(); j++) if (lp.A[i][j] != 0) { v.idx.push_back(j); v.val.push_back(model::q_to_double_nearest(lp.A[i][j])); } return v; }
static sut::SVecQ rowvecQ(const LP& lp, int i) { sut::SVecQ v; for (int j = 0; j < lp.ncols(); j++) if (lp.A[i][j] != 0) { v.idx.push_back(j); v.val.push_back(lp.A[i][j]); } return v; }
static Q extQ(const Ext& e, const Q& inf) { return e.inf > 0 ? inf : e.inf < 0 ? Q(-inf) : e.v; }

void Executor::load_model(sut::Sut& s, const LP& lp, bool viaRational, double infty) {
  // columns first (empty), then rows; objective sense and offset through parameters
  s.setInt(P::i("objsense"), lp.sense);
  if (viaRational) {
    Q inf = s.rationalInfinity();
    sut::SVecQ e;
    for (int j = 0; j < lp.ncols(); j++) s.addColQ(lp.obj[j], extQ(lp.lo[j], inf), e, extQ(lp.up[j], inf), j % 2);
    for (int i = 0; i < lp.nrows(); i++) s.addRowQ(extQ(lp.lhs[i], inf), rowvecQ(lp, i), extQ(lp.rhs[i], inf), i % 2);
  } else {
    sut::SVec e;
    for (int j = 0; j < lp.ncols(); j++) s.addCol(model::q_to_double_nearest(lp.obj[j]), model::ext_to_double(lp.lo[j], infty), e, model::ext_to_double(lp.up[j], infty));
    for (int i = 0; i < lp.nrows(); i++) s.addRow(model::ext_to_double(lp.lhs[i], infty), rowvec(lp, i), model::ext_to_double(lp.rhs[i], infty));
  }
  s.setReal(P::r("obj_offset"), model::q_to_double_nearest(lp.offset));
}

// ------------------------------------------------------------------ task / run
struct ThreadArg { Executor* ex; int task; void (Executor::*fn)(int); };

RunResult Executor::run() {
  if (plan_.engine == "file" && opt_.scratch.find("/simdisk") != std::string::npos) { std::string cmd = "find '" + opt_.scratch + "' -maxdepth 1 -type f -delete 2>/dev/null"; int rc = system(cmd.c_str()); (void)rc; }
  int ntasks = (int)plan_.cfgi("ntasks", 1);
  tasks_.assign(ntasks, TaskCtx());
  for (int t = 0; t < ntasks; t++) {
    TaskCtx& c = tasks_[t];
    c.id = t;
    c.profile = (int)plan_.cfgi("clock", CLK_MIXED);
    c.clock_rng.reseed(mix(plan_.seed, 0xC10C + t));
    c.bug_rng.reseed(mix(plan_.cfgi("bugseed", (long)plan_.seed), 0xB06 + t));
    c.bug_mask = (uint32_t)plan_.cfgi("bugmask", 0);
    c.bug_p = plan_.cfgd("bugp", 0.0);
    c.bug_budget = (int)plan_.cfgi("bugbudget", 2);
    c.event_cap = (uint64_t)plan_.cfgi("eventcap", 3000000);
  }
  if (ntasks == 1) {
    set_current(&tasks_[0]);
    run_task(0);
    set_current(nullptr);
  } else {
    sched_.ntrace = 0; sched_.switches = 0; sched_.replay = nullptr; sched_.replay_len = sched_.replay_pos = 0; sched_.turn = -1;
    sched_.ntasks = ntasks; sched_.rng.reseed(mix(plan_.seed, 0x5C4ED)); sched_.stickiness = plan_.cfgd("sticky", 0.5);
    sched_.only_op_boundaries = plan_.cfgi("opboundary", 0) != 0;
    bool serial = plan_.cfgi("serial", 0) != 0;
    if (!plan_.sched.empty() && !serial) { sched_.replay = plan_.sched.data(); sched_.replay_len = plan_.sched.size(); }
    sched_.alive_mask = (1 << ntasks) - 1;
    if (serial) { sched_.stickiness = 1.0; }
    sched_.turn = 0;
    set_scheduler(&sched_);
    std::vector<pthread_t> th(ntasks);
    struct Arg { Executor* ex; int t; };
    std::vector<Arg> args(ntasks);
    for (int t = 0; t < ntasks; t++) {
      args[t] = {this, t};
      pthread_create(&th[t], nullptr, [](void* a) -> void* {
        Arg* g = (Arg*)a; set_current(&g->ex->tasks_[g->t]);
        sut::tsan_task_begin();
        sched_task_start(g->t);
        g->ex->run_task(g->t);
        set_current(nullptr);
        sched_task_exit(g->t);
        sut::tsan_task_end();
        return nullptr; }, &args[t]);
    }
    for (int t = 0; t < ntasks; t++) pthread_join(th[t], nullptr);
    set_scheduler(nullptr);
    res_.counters["task_switches"] += (long)sched_.switches;
    res_.sched_trace.assign(sched_.trace, sched_.trace + sched_.ntrace);
  }
  // fold digests
  Digest d;
  for (auto& t : tasks_) {
    d.u64(t.digest.h); d.u64(t.nevents); res_.nevents += t.nevents; res_.vtime += virtual_seconds(t) < 1e9 ? virtual_seconds(t) : 0;
    if (t.fired_jump) { count("fault_clock_jump", (long)t.fired_jump); res_.nontrivial = true; }
    if (t.fired_intr) { count("fault_interrupt", (long)t.fired_intr); res_.nontrivial = true; }
    if (t.fired_back) { count("fault_clock_backstep", (long)t.fired_back); res_.nontrivial = true; }
    static const char* bn[] = {"bug_verify_fallback", "bug_ratrec_fail", "bug_no_rescale"};
    for (int b = 0; b < 3; b++) if (t.bug_fired[b]) { count(bn[b], (long)t.bug_fired[b]); res_.nontrivial = true; }
    if (t.cap_hit) count("event_cap_hit");
    count("clock_reads", (long)t.clock_reads);
    count("pivot_points", (long)(t.site_count[SITE_ENTER_PIVOT] + t.site_count[SITE_LEAVE_PIVOT]));
  }
  for (auto& o : objs_) { d.str(o.first); d.u64(o.second->obs); res_.obj_digest[o.first] = o.second->obs; }
  for (auto& v : res_.viol) { d.str(v.prop); d.str(v.oracle); }
  res_.digest = d.h;
  objs_.clear();
  return res_;
}

void Executor::run_task(int task) {
  TaskCtx& t = tasks_[task];
  int ntasks = (int)tasks_.size();
  for (size_t k = 0; k < plan_.ops.size(); k++) {
    const Op& op = plan_.ops[k];
    if (op.task != task) continue;
    if (ntasks > 1) {
      // wait (yielding) for an object created by another task
      if (!op.obj.empty() && op.name != "new" && op.name != "load") {
        int spins = 0;
        while (!obj(op.obj) && spins < 200000000) {   // a producer inside a very long solve yields hundreds of thousands of times
          Sched* s = scheduler();
          bool others = s && (s->alive_mask & ~(1 << task));
          if (!others) break;
          sched_force_switch(task); spins++;
        }
      }
      event(SITE_OPBOUNDARY);
    }
    cur_op_ = (int)k;
    try { exec_op((int)k, op, t); }
    catch (const sut::Exc& e) {
      count("exception:" + op.name);
      // an exception out of an API call with valid arguments
      if (op.name == "param") viol("C15", "exception_instead_of_rejection", op.text() + " -> " + e.what);
      else if (op.name != "file" && op.name != "fileq") viol("C13", "unexpected_exception", op.text() + " -> " + e.what);
    }
    res_.ops_done++;
  }
}

void Executor::exec_op(int idx, const Op& op, TaskCtx& t) {
  (void)idx;
  const std::string& n = op.name;
  if (!op.obj.empty()) { Obj* o = obj(op.obj); if (o && o->handed && o->owner_task != t.id) { tsan_acquire_slot(&o->slot); o->owner_task = t.id; } }
  if (n == "new") op_new(op, t);
  else if (n == "load") op_load(op, t);
  else if (n == "set") op_set(op, t);
  else if (n == "optimize") op_optimize(op, t);
  else if (n == "lift") op_lift(op, t);
  else if (n == "copy") op_copy(op, t);
  else if (n == "destroy") op_destroy(op, t);
  else if (n == "clearbasis") op_clearbasis(op, t);
  else if (n == "query") op_query(op, t);
  else if (n == "file") op_file(op, t);
  else op_modify(op, t);
  // differential twin of the C09 oracles (main.cpp): the same history with scaling switched off
  if (plan_.cfgi("noscale", 0) && !op.obj.empty()) { Obj* o = obj(op.obj); if (o && o->s) {
    if (o->s->getInt(P::i("scaler")) != 0) { o->s->setInt(P::i("scaler"), 0); o->pm.i[P::i("scaler")] = 0; }
    if (o->s->getBool(P::b("persistentscaling"))) { o->s->setBool(P::b("persistentscaling"), false); o->pm.b[P::b("persistentscaling")] = false; } } }
}

// ------------------------------------------------------------------ simple ops
void Executor::op_new(const Op& op, TaskCtx& t) {
  std::unique_ptr<Obj> o(new Obj());
  o->name = op.obj; o->s.reset(new sut::Sut()); o->pm.reset(); o->owner_task = t.id;
  o->pm.i[P::i("verbosity")] = 0;
  o->lp.sense = o->s->getInt(P::i("objsense")); o->lp.offset = model::q_from_double(o->s->getReal(P::r("obj_offset")));   // an object without LP has the default sense
  if (plan_.cfgi("logsink", 0)) { o->logbuf.reset(new LogBuf()); o->logstream.reset(new std::ostream(o->logbuf.get())); o->s->setLogSink(o->logstream.get()); }
  objs_[op.obj] = std::move(o);
}
void Executor::op_load(const Op& op, TaskCtx& t) {
  (void)t;
  Obj* o = obj(op.obj); if (!o) return;
  int k = (int)op.geti("lp", 0); if (k < 0 || k >= (int)plan_.lps.size()) return;
  bool viaRat = op.get("via") == "rational";
  o->lp = plan_.lps[k];
  if (viaRat) { o->s->setInt(P::i("syncmode"), 1); o->pm.i[P::i("syncmode")] = 1; o->ever_rational = true; }
  if (!viaRat) o->lp = real_image(o->lp);   // numbers entered through the real interface are doubles: the model holds exactly those
  o->lp.offset = model::q_from_double(model::q_to_double_nearest(o->lp.offset));   // OBJ_OFFSET is a real parameter: a double is all the user can enter
  load_model(*o->s, o->lp, viaRat, o->s->getReal(P::r("infty")));
  o->pm.i[P::i("objsense")] = o->lp.sense;
  o->pm.r[P::r("obj_offset")] = model::q_to_double_nearest(o->lp.offset);
  o->stopped_since_change = false; o->solved_ok = false;
  if (opt_.want("C06") || opt_.want("C07")) check_accessors(*o);
}
void Executor::op_set(const Op& op, TaskCtx& t) {
  (void)t;
  Obj* o = obj(op.obj); if (!o) return;
  for (auto& kv : op.kv) {
    const std::string& k = kv.first; const std::string& v = kv.second;
    size_t c = k.find(':'); if (c == std::string::npos) continue;
    if (!opt_.sacrificial) { bool av = false; for (auto& kn : opt_.known) if (kn.status != "fixed") { auto it = kn.avoid.find(k); if (it != kn.avoid.end() && it->second == v) av = true; } if (av) { count("avoided_known:" + k + "=" + v); continue; } }
    std::string ty = k.substr(0, c), nm = k.substr(c + 1);
    bool ok = false;
    if (ty == "bool") { int p = P::b(nm); if (p < 0) continue; ok = o->s->setBool(p, v == "1" || v == "true"); if (ok) o->pm.b[p] = (v == "1" || v == "true"); }
    else if (ty == "int") { int p = P::i(nm); if (p < 0) continue; ok = o->s->setInt(p, atoi(v.c_str())); if (ok) o->pm.i[p] = atoi(v.c_str());
      if (nm == "objsense" && ok) { o->lp.sense = atoi(v.c_str()); }
      if (nm == "syncmode" && ok && atoi(v.c_str()) != 0) o->ever_rational = true; }
    else if (ty == "real") { int p = P::r(nm); if (p < 0) continue; double d = atof(v.c_str()); ok = o->s->setReal(p, d); if (ok) o->pm.r[p] = d;
      if (nm == "obj_offset" && ok) o->lp.offset = model::q_from_double(d); }
    else if (ty == "seed") { o->s->setSeed((unsigned)atol(v.c_str())); o->pm.seed = (unsigned)atol(v.c_str()); ok = true; }
    if (!ok) { count("set_rejected"); viol("C15", "valid_set_rejected", k + "=" + v); }
  }
}
void Executor::op_lift(const Op& op, TaskCtx& t) {
  (void)t;
  Obj* o = obj(op.obj); if (!o) return;
  auto& s = *o->s;
  double inf = s.getReal(P::r("infty"));
  s.setInt(P::i("iterlimit"), -1); o->pm.i[P::i("iterlimit")] = -1;
  s.setInt(P::i("reflimit"), -1); o->pm.i[P::i("reflimit")] = -1;
  s.setInt(P::i("stallreflimit"), -1); o->pm.i[P::i("stallreflimit")] = -1;
  s.setReal(P::r("timelimit"), inf); o->pm.r[P::r("timelimit")] = inf;
  s.setReal(P::r("objlimit_lower"), -inf); o->pm.r[P::r("objlimit_lower")] = -inf;
  s.setReal(P::r("objlimit_upper"), inf); o->pm.r[P::r("objlimit_upper")] = inf;
}
void Executor::op_clearbasis(const Op& op, TaskCtx& t) {
  (void)t;
  Obj* o = obj(op.obj); if (!o) return;
  o->s->clearBasis();
  observe_i(*o, o->s->hasBasis());
  if (o->s->hasBasis()) viol("C04", "basis_after_clearBasis", "hasBasis() true after clearBasis()");
}
void Executor::op_copy(const Op& op, TaskCtx& t) {
  Obj* src = obj(op.obj); if (!src) return;
  std::string dst = op.get("to"); if (dst.empty()) return;
  bool assign = op.get("how") == "assign";
  std::unique_ptr<Obj> o(new Obj());
  o->name = dst;
  if (assign) { o->s.reset(new sut::Sut()); o->s->assign(*src->s); }
  else o->s.reset(new sut::Sut(*src->s));
  o->lp = src->lp; o->pm = src->pm; o->refReal = src->refReal; o->refRat = src->refRat;
  o->stopped_since_change = src->stopped_since_change; o->buggified_since_change = src->buggified_since_change;
  o->solved_ok = src->solved_ok; o->last_status = src->last_status; o->ever_rational = src->ever_rational;
  o->owner_task = t.id;
  if (plan_.cfgi("logsink", 0)) { o->logbuf.reset(new LogBuf()); o->logstream.reset(new std::ostream(o->logbuf.get())); o->s->setLogSink(o->logstream.get()); } else o->s->setLogSink(nullptr);
  // C17: immediately after the copy every observable of the copy equals the source
  if (opt_.want("C17")) {
    auto& a = *src->s; auto& b = *o->s;
    std::string why;
    if (a.numRows() != b.numRows() || a.numCols() != b.numCols() || a.numNonzeros() != b.numNonzeros()) why = "dimensions differ: " + std::to_string(a.numRows()) + "x" + std::to_string(a.numCols()) + " nnz " + std::to_string(a.numNonzeros()) + " vs " + std::to_string(b.numRows()) + "x" + std::to_string(b.numCols()) + " nnz " + std::to_string(b.numNonzeros());
    for (int i = 0; why.empty() && i < a.numRows(); i++) {
      if (memcmp_d(a.lhs(i), b.lhs(i)) || memcmp_d(a.rhs(i), b.rhs(i))) why = "row side differs";
      sut::SVec ra = a.rowVec(i), rb = b.rowVec(i);
      if (ra.idx != rb.idx || ra.val != rb.val) why = "row vector differs";
    }
    for (int j = 0; why.empty() && j < a.numCols(); j++)
      if (memcmp_d(a.lower(j), b.lower(j)) || memcmp_d(a.upper(j), b.upper(j)) || memcmp_d(a.obj(j), b.obj(j))) why = "column data differs";
    auto& pi = sut::param_info();
    for (int p = 0; why.empty() && p < pi.nbool; p++) if (a.getBool(p) != b.getBool(p)) why = "bool param " + pi.bname[p];
    for (int p = 0; why.empty() && p < pi.nint; p++) if (a.getInt(p) != b.getInt(p)) why = "int param " + pi.iname[p];
    for (int p = 0; why.empty() && p < pi.nreal; p++) if (memcmp_d(a.getReal(p), b.getReal(p))) why = "real param " + pi.rname[p];
    if (why.empty() && a.seed() != b.seed()) why = "random seed";
    if (why.empty() && a.status() != b.status()) why = "status";
    if (why.empty() && a.hasBasis() != b.hasBasis()) why = "hasBasis";
    if (why.empty() && a.hasSol() != b.hasSol()) why = "hasSol";
    if (why.empty() && a.hasBasis()) { std::vector<int> r1, c1, r2, c2; a.getBasis(r1, c1); b.getBasis(r2, c2); if (r1 != r2 || c1 != c2) why = "basis"; }
    { int sm = a.getInt(P::i("solvemode")); bool exact = (sm == 2 || (sm == 1 && !(a.getReal(P::r("feastol")) >= 1e-9 && a.getReal(P::r("opttol")) >= 1e-9))) && a.getInt(P::i("syncmode")) != 0;
      if (why.empty() && exact && a.hasSol()) {
        // rational solution first: the real getters would convert and cache it in the source
        if (b.objValueQ() != a.objValueQ()) why = "rational objective value";
        std::vector<sut::Q> q1, q2; bool g1 = a.getPrimalQ(q1), g2 = b.getPrimalQ(q2); if (why.empty() && (g1 != g2 || q1 != q2)) why = "rational primal";
        g1 = a.getDualQ(q1); g2 = b.getDualQ(q2); if (why.empty() && (g1 != g2 || q1 != q2)) why = "rational dual";
        if (why.empty() && (a.isPrimalFeasible() != b.isPrimalFeasible() || a.isDualFeasible() != b.isDualFeasible())) why = "feasibility flags";
      } }
    if (why.empty() && a.hasSol()) {
      std::vector<double> x1, x2; bool p1 = a.getPrimal(x1), p2 = b.getPrimal(x2);
      if (p1 != p2 || (p1 && (x1.size() != x2.size() || (x1.size() && memcmp(x1.data(), x2.data(), x1.size() * 8))))) why = "primal";
      std::vector<double> y1, y2; bool d1 = a.getDual(y1), d2 = b.getDual(y2);
      if (why.empty() && (d1 != d2 || (d1 && (y1.size() != y2.size() || (y1.size() && memcmp(y1.data(), y2.data(), y1.size() * 8)))))) why = "dual";
      if (why.empty() && memcmp_d(a.objValue(), b.objValue())) why = "objective value";
    }
    if (why.empty() && a.tolerancesPtr() == b.tolerancesPtr()) { /* shared state is judged by its observable effect, not by the pointer */ count("copy_shares_tolerances"); }
    if (!why.empty()) viol("C17", "copy_not_equal", std::string(assign ? "operator= " : "copy ctor ") + why, ctx_of(*src));
    count("copies");
  }
  if (op.has("handover")) { o->handed = true; TSAN_REL(&o->slot); }
  objs_[dst] = std::move(o);
}
void Executor::op_destroy(const Op& op, TaskCtx& t) {
  (void)t;
  auto it = objs_.find(op.obj); if (it == objs_.end()) return;
  res_.obj_digest[op.obj] = it->second->obs;
  // keep the digest in the final fold
  Digest d; d.u64(it->second->obs);
  std::unique_ptr<Obj> dead = std::move(it->second);
  objs_.erase(it);
  dead->s.reset();
  std::unique_ptr<Obj> tomb(new Obj()); tomb->obs = dead->obs; tomb->name = op.obj + "#dead";
  objs_[op.obj + "#dead"] = std::move(tomb);
}
}  // namespace sim
