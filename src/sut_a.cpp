// facade part A: construction, parameters, real LP interface, files
#include "sut_common.h"
#include <fstream>
namespace sut {

const char* status_name(int st) {
  switch (st) {
    case ST_ERROR: return "ERROR"; case ST_NO_RATIOTESTER: return "NO_RATIOTESTER"; case ST_NO_PRICER: return "NO_PRICER"; case ST_NO_SOLVER: return "NO_SOLVER";
    case ST_NOT_INIT: return "NOT_INIT"; case ST_ABORT_CYCLING: return "ABORT_CYCLING"; case ST_ABORT_TIME: return "ABORT_TIME"; case ST_ABORT_ITER: return "ABORT_ITER";
    case ST_ABORT_VALUE: return "ABORT_VALUE"; case ST_SINGULAR: return "SINGULAR"; case ST_NO_PROBLEM: return "NO_PROBLEM"; case ST_REGULAR: return "REGULAR";
    case ST_RUNNING: return "RUNNING"; case ST_UNKNOWN: return "UNKNOWN"; case ST_OPTIMAL: return "OPTIMAL"; case ST_UNBOUNDED: return "UNBOUNDED";
    case ST_INFEASIBLE: return "INFEASIBLE"; case ST_INForUNBD: return "INForUNBD"; case ST_OPTIMAL_UNSCALED_VIOLATIONS: return "OPTIMAL_UNSCALED_VIOLATIONS";
  }
  return "?";
}

const ParamInfo& param_info() {
  static ParamInfo pi = [] {
    ParamInfo p; p.nbool = SoPlex::BOOLPARAM_COUNT; p.nint = SoPlex::INTPARAM_COUNT; p.nreal = SoPlex::REALPARAM_COUNT;
    for (int i = 0; i < p.nbool; i++) { p.bname.push_back(SoPlex::Settings::boolParam.name[i]); p.bdef.push_back(SoPlex::Settings::boolParam.defaultValue[i]); }
    for (int i = 0; i < p.nint; i++) { p.iname.push_back(SoPlex::Settings::intParam.name[i]); p.idef.push_back(SoPlex::Settings::intParam.defaultValue[i]);
      p.ilo.push_back(SoPlex::Settings::intParam.lower[i]); p.iup.push_back(SoPlex::Settings::intParam.upper[i]); }
    for (int i = 0; i < p.nreal; i++) { p.rname.push_back(SoPlex::Settings::realParam.name[i]); p.rdef.push_back(SoPlex::Settings::realParam.defaultValue[i]);
      p.rlo.push_back(SoPlex::Settings::realParam.lower[i]); p.rup.push_back(SoPlex::Settings::realParam.upper[i]); }
    return p; }();
  return pi;
}

Sut::Sut() { SUT_TRY p_ = new SoPlex(); names_ = new Names(); SP(p_).setIntParam(SoPlex::VERBOSITY, 0); setLogSink(nullptr); SUT_END }
Sut::Sut(const Sut& o) { SUT_TRY p_ = new SoPlex(SP(o.p_)); names_ = new Names(); static_cast<Names*>(names_)->copyFrom(*static_cast<Names*>(o.names_)); SUT_END }
Sut::~Sut() { TsanWindow w; (void)w; delete static_cast<SoPlex*>(p_); delete static_cast<Names*>(names_); }
void Sut::assign(const Sut& o) { SUT_TRY SP(p_) = SP(o.p_); static_cast<Names*>(names_)->copyFrom(*static_cast<Names*>(o.names_)); SUT_END }

namespace { struct NullBuf : std::streambuf { int overflow(int c) override { return c; } std::streamsize xsputn(const char*, std::streamsize n) override { return n; } };
  NullBuf& nullbuf() { static thread_local NullBuf b; return b; }
  std::ostream& nullstream() { static thread_local std::ostream os(&nullbuf()); return os; } }
void Sut::setLogSink(std::ostream* sink) {
  std::ostream& os = sink ? *sink : nullstream();
  for (int v = SPxOut::ERROR; v <= SPxOut::INFO3; v++) SP(p_).spxout.setStream((SPxOut::Verbosity)v, os);
}

bool Sut::setBool(int p, bool v) { SUT_TRY return SP(p_).setBoolParam((SoPlex::BoolParam)p, v); SUT_END }
bool Sut::setInt(int p, int v) { SUT_TRY return SP(p_).setIntParam((SoPlex::IntParam)p, v); SUT_END }
bool Sut::setReal(int p, double v) { SUT_TRY return SP(p_).setRealParam((SoPlex::RealParam)p, v); SUT_END }
bool Sut::getBool(int p) const { return SP(p_).boolParam((SoPlex::BoolParam)p); }
int Sut::getInt(int p) const { return SP(p_).intParam((SoPlex::IntParam)p); }
double Sut::getReal(int p) const { return SP(p_).realParam((SoPlex::RealParam)p); }
void Sut::setSeed(unsigned s) { SP(p_).setRandomSeed(s); }
unsigned Sut::seed() const { return SP(p_).randomSeed(); }
bool Sut::parseSettings(const std::string& s) { SUT_TRY std::vector<char> b(s.begin(), s.end()); b.push_back(0); return SP(p_).parseSettingsString(b.data()); SUT_END }
bool Sut::saveSettings(const std::string& f, bool onlyChanged) { SUT_TRY return SP(p_).saveSettingsFile(f.c_str(), onlyChanged); SUT_END }
bool Sut::loadSettings(const std::string& f) { SUT_TRY return SP(p_).loadSettingsFile(f.c_str()); SUT_END }
void Sut::resetSettings() { SUT_TRY SP(p_).resetSettings(true); SUT_END }
bool Sut::copySettingsFrom(const Sut& o) { SUT_TRY return SP(p_).setSettings(SP(o.p_).settings()); SUT_END }
const void* Sut::tolerancesPtr() const { return SP(p_).tolerances().get(); }

int Sut::numRows() const { return SP(p_).numRows(); }
int Sut::numCols() const { return SP(p_).numCols(); }
int Sut::numNonzeros() const { return SP(p_).numNonzeros(); }
double Sut::coef(int i, int j) const { SUT_TRY return SP(p_).coefReal(i, j); SUT_END }
SVec Sut::rowVec(int i) const { SUT_TRY DSVector v; SP(p_).getRowVectorReal(i, v); SVec r; for (int k = 0; k < v.size(); k++) { r.idx.push_back(v.index(k)); r.val.push_back(v.value(k)); } return r; SUT_END }
SVec Sut::colVec(int j) const { SUT_TRY DSVector v; SP(p_).getColVectorReal(j, v); SVec r; for (int k = 0; k < v.size(); k++) { r.idx.push_back(v.index(k)); r.val.push_back(v.value(k)); } return r; SUT_END }
double Sut::lhs(int i) const { return SP(p_).lhsReal(i); }
double Sut::rhs(int i) const { return SP(p_).rhsReal(i); }
double Sut::lower(int j) const { return SP(p_).lowerReal(j); }
double Sut::upper(int j) const { return SP(p_).upperReal(j); }
double Sut::obj(int j) const { return SP(p_).objReal(j); }
double Sut::maxObj(int j) const { return SP(p_).maxObjReal(j); }
int Sut::rowType(int i) const { return (int)SP(p_).rowTypeReal(i); }
static std::vector<double> tov(const VectorReal& v) { std::vector<double> r(v.dim()); for (int i = 0; i < v.dim(); i++) r[i] = v[i]; return r; }
static VectorReal fromv(const std::vector<double>& v) { VectorReal r((int)v.size()); for (size_t i = 0; i < v.size(); i++) r[(int)i] = v[i]; return r; }
std::vector<double> Sut::lhsVec() const { VectorReal v(numRows()); SP(p_).getLhsReal(v); return tov(v); }
std::vector<double> Sut::rhsVec() const { VectorReal v(numRows()); SP(p_).getRhsReal(v); return tov(v); }
std::vector<double> Sut::lowerVec() const { VectorReal v(numCols()); SP(p_).getLowerReal(v); return tov(v); }
std::vector<double> Sut::upperVec() const { VectorReal v(numCols()); SP(p_).getUpperReal(v); return tov(v); }
std::vector<double> Sut::objVec() const { VectorReal v(numCols()); SP(p_).getObjReal(v); return tov(v); }

void Sut::addRow(double l, const SVec& v, double r) { SUT_TRY SP(p_).addRowReal(LPRow(l, toDS(v), r)); SUT_END }
void Sut::addCol(double c, double lo, const SVec& v, double up) { SUT_TRY SP(p_).addColReal(LPCol(c, toDS(v), up, lo)); SUT_END }
void Sut::addRows(const std::vector<double>& l, const std::vector<SVec>& v, const std::vector<double>& r) {
  SUT_TRY LPRowSet rs; for (size_t k = 0; k < l.size(); k++) rs.add(LPRow(l[k], toDS(v[k]), r[k])); SP(p_).addRowsReal(rs); SUT_END }
void Sut::addCols(const std::vector<double>& c, const std::vector<double>& lo, const std::vector<SVec>& v, const std::vector<double>& up) {
  SUT_TRY LPColSet cs; for (size_t k = 0; k < c.size(); k++) cs.add(LPCol(c[k], toDS(v[k]), up[k], lo[k])); SP(p_).addColsReal(cs); SUT_END }
void Sut::changeRow(int i, double l, const SVec& v, double r) { SUT_TRY SP(p_).changeRowReal(i, LPRow(l, toDS(v), r)); SUT_END }
void Sut::changeCol(int j, double c, double lo, const SVec& v, double up) { SUT_TRY SP(p_).changeColReal(j, LPCol(c, toDS(v), up, lo)); SUT_END }
void Sut::changeLhs(int i, double v) { SUT_TRY SP(p_).changeLhsReal(i, v); SUT_END }
void Sut::changeRhs(int i, double v) { SUT_TRY SP(p_).changeRhsReal(i, v); SUT_END }
void Sut::changeRange(int i, double l, double r) { SUT_TRY SP(p_).changeRangeReal(i, l, r); SUT_END }
void Sut::changeLhsVec(const std::vector<double>& v) { SUT_TRY SP(p_).changeLhsReal(fromv(v)); SUT_END }
void Sut::changeRhsVec(const std::vector<double>& v) { SUT_TRY SP(p_).changeRhsReal(fromv(v)); SUT_END }
void Sut::changeRangeVec(const std::vector<double>& l, const std::vector<double>& r) { SUT_TRY SP(p_).changeRangeReal(fromv(l), fromv(r)); SUT_END }
void Sut::changeLower(int j, double v) { SUT_TRY SP(p_).changeLowerReal(j, v); SUT_END }
void Sut::changeUpper(int j, double v) { SUT_TRY SP(p_).changeUpperReal(j, v); SUT_END }
void Sut::changeBounds(int j, double l, double u) { SUT_TRY SP(p_).changeBoundsReal(j, l, u); SUT_END }
void Sut::changeLowerVec(const std::vector<double>& v) { SUT_TRY SP(p_).changeLowerReal(fromv(v)); SUT_END }
void Sut::changeUpperVec(const std::vector<double>& v) { SUT_TRY SP(p_).changeUpperReal(fromv(v)); SUT_END }
void Sut::changeBoundsVec(const std::vector<double>& l, const std::vector<double>& u) { SUT_TRY SP(p_).changeBoundsReal(fromv(l), fromv(u)); SUT_END }
void Sut::changeObj(int j, double v) { SUT_TRY SP(p_).changeObjReal(j, v); SUT_END }
void Sut::changeObjVec(const std::vector<double>& v) { SUT_TRY SP(p_).changeObjReal(fromv(v)); SUT_END }
void Sut::changeElement(int i, int j, double v) { SUT_TRY SP(p_).changeElementReal(i, j, v); SUT_END }
void Sut::removeRow(int i) { SUT_TRY SP(p_).removeRowReal(i); SUT_END }
void Sut::removeCol(int j) { SUT_TRY SP(p_).removeColReal(j); SUT_END }
void Sut::removeRowsPerm(std::vector<int>& perm) { SUT_TRY SP(p_).removeRowsReal(perm.data()); SUT_END }
void Sut::removeColsPerm(std::vector<int>& perm) { SUT_TRY SP(p_).removeColsReal(perm.data()); SUT_END }
void Sut::removeRowsIdx(std::vector<int> idx, std::vector<int>* perm) { SUT_TRY if (perm) perm->assign(numRows(), 0); SP(p_).removeRowsReal(idx.data(), (int)idx.size(), perm ? perm->data() : nullptr); SUT_END }
void Sut::removeColsIdx(std::vector<int> idx, std::vector<int>* perm) { SUT_TRY if (perm) perm->assign(numCols(), 0); SP(p_).removeColsReal(idx.data(), (int)idx.size(), perm ? perm->data() : nullptr); SUT_END }
void Sut::removeRowRange(int a, int b, std::vector<int>* perm) { SUT_TRY if (perm) perm->assign(numRows(), 0); SP(p_).removeRowRangeReal(a, b, perm ? perm->data() : nullptr); SUT_END }
void Sut::removeColRange(int a, int b, std::vector<int>* perm) { SUT_TRY if (perm) perm->assign(numCols(), 0); SP(p_).removeColRangeReal(a, b, perm ? perm->data() : nullptr); SUT_END }
void Sut::clearLPReal() { SUT_TRY SP(p_).clearLPReal(); SUT_END }
void Sut::syncLPReal() { SUT_TRY SP(p_).syncLPReal(); SUT_END }

// ---- files
static Names& NM(void* n) { return *static_cast<Names*>(n); }
bool Sut::readFile(const std::string& f, bool withNames) {
  SUT_TRY
  Names& n = NM(names_);
  if (withNames) { n.rows.clear(); n.cols.clear(); bool ok = SP(p_).readFile(f.c_str(), &n.rows, &n.cols); n.valid = ok; return ok; }
  n.valid = false;
  return SP(p_).readFile(f.c_str());
  SUT_END }
bool Sut::writeFile(const std::string& f, bool withNames, bool unscale) {
  SUT_TRY Names& n = NM(names_); bool wn = withNames && n.valid;
  return SP(p_).writeFile(f.c_str(), wn ? &n.rows : nullptr, wn ? &n.cols : nullptr, nullptr, unscale, true); SUT_END }
bool Sut::writeFileRational(const std::string& f, bool withNames) {
  SUT_TRY Names& n = NM(names_); bool wn = withNames && n.valid;
  return SP(p_).writeFileRational(f.c_str(), wn ? &n.rows : nullptr, wn ? &n.cols : nullptr, nullptr, true); SUT_END }
bool Sut::writeDualFile(const std::string& f) { SUT_TRY return SP(p_).writeDualFileReal(f.c_str()); SUT_END }
bool Sut::readBasisFile(const std::string& f, bool withNames) {
  SUT_TRY Names& n = NM(names_); bool wn = withNames && n.valid;
  return SP(p_).readBasisFile(f.c_str(), wn ? &n.rows : nullptr, wn ? &n.cols : nullptr); SUT_END }
bool Sut::writeBasisFile(const std::string& f, bool withNames, bool cpx) {
  SUT_TRY Names& n = NM(names_); bool wn = withNames && n.valid;
  return SP(p_).writeBasisFile(f.c_str(), wn ? &n.rows : nullptr, wn ? &n.cols : nullptr, cpx); SUT_END }
void Sut::writeStateReal(const std::string& b, bool withNames, bool cpx) {
  SUT_TRY Names& n = NM(names_); bool wn = withNames && n.valid;
  SP(p_).writeStateReal(b.c_str(), wn ? &n.rows : nullptr, wn ? &n.cols : nullptr, cpx, true); SUT_END }
void Sut::writeStateRational(const std::string& b, bool withNames, bool cpx) {
  SUT_TRY Names& n = NM(names_); bool wn = withNames && n.valid;
  SP(p_).writeStateRational(b.c_str(), wn ? &n.rows : nullptr, wn ? &n.cols : nullptr, cpx, true); SUT_END }
int Sut::numRowNames() const { return static_cast<Names*>(names_)->valid ? static_cast<Names*>(names_)->rows.num() : -1; }
int Sut::numColNames() const { return static_cast<Names*>(names_)->valid ? static_cast<Names*>(names_)->cols.num() : -1; }
void Sut::setDefaultNames() {
  SUT_TRY Names& n = NM(names_); n.rows.clear(); n.cols.clear();
  for (int i = 0; i < numRows(); i++) { std::string s = "R" + std::to_string(i); n.rows.add(s.c_str()); }
  for (int j = 0; j < numCols(); j++) { std::string s = "C" + std::to_string(j); n.cols.add(s.c_str()); }
  n.valid = true; SUT_END }

// ---- peek
bool Sut::peekIsRealLPLoaded() const { return SoplexVerifPeek::isRealLPLoaded(SP(p_)); }
bool Sut::peekIsRealLPScaled() const { return SoplexVerifPeek::isRealLPScaled(SP(p_)); }
bool Sut::peekHasBasisFlag() const { return SoplexVerifPeek::hasBasis(SP(p_)); }
int Sut::peekRowType(int i) const { return SoplexVerifPeek::rowType(SP(p_), i); }
int Sut::peekColType(int j) const { return SoplexVerifPeek::colType(SP(p_), j); }
int Sut::peekRowTypesSize() const { return SoplexVerifPeek::rowTypesSize(SP(p_)); }
int Sut::peekColTypesSize() const { return SoplexVerifPeek::colTypesSize(SP(p_)); }
int Sut::peekRationalLUStatus() const { return SoplexVerifPeek::ratLUStatus(SP(p_)); }
bool Sut::peekSolverIsScaled() const { return SoplexVerifPeek::solverIsScaled(SP(p_)); }
int Sut::peekRep() const { return SoplexVerifPeek::solverRep(SP(p_)); }
int Sut::peekOptimizeCalls() const { return SoplexVerifPeek::optimizeCalls(SP(p_)); }
int Sut::peekUnscaleCalls() const { return SoplexVerifPeek::unscaleCalls(SP(p_)); }

double soplex_rational_to_double(const Q& q) { return (double)toR(q); }
void set_thread_infinity_default() {}
#if defined(__SANITIZE_THREAD__)
thread_local int tsan_ignoring = 0;
void tsan_task_begin() { AnnotateIgnoreReadsBegin(__FILE__, __LINE__); AnnotateIgnoreWritesBegin(__FILE__, __LINE__); tsan_ignoring = 1; }
void tsan_task_end() { if (tsan_ignoring > 0) { AnnotateIgnoreReadsEnd(__FILE__, __LINE__); AnnotateIgnoreWritesEnd(__FILE__, __LINE__); tsan_ignoring = 0; } }
#else
void tsan_task_begin() {}
void tsan_task_end() {}
#endif

int stream_read_lp(std::istream& in, bool rational, BareLP& out) {
  SUT_TRY
  SPxOut msgout; msgout.setVerbosity(SPxOut::ERROR);
  std::shared_ptr<Tolerances> tol = std::make_shared<Tolerances>();
  if (rational) {
    SPxLPRational lp; NameSet rn, cn; lp.setOutstream(msgout); lp.setTolerances(tol);
    bool ok = lp.read(in, &rn, &cn);
    out.rows = lp.nRows(); out.cols = lp.nCols(); out.nnz = lp.nNzos();
    if (ok) { out.consistent = (rn.num() == lp.nRows() && cn.num() == lp.nCols()); if (!out.consistent) out.why = "name sets do not match dimensions"; }
    return ok ? 1 : 0;
  } else {
    SPxLPReal lp; NameSet rn, cn; lp.setOutstream(msgout); lp.setTolerances(tol);
    bool ok = lp.read(in, &rn, &cn);
    out.rows = lp.nRows(); out.cols = lp.nCols(); out.nnz = lp.nNzos();
    if (ok) {
      out.consistent = (rn.num() == lp.nRows() && cn.num() == lp.nCols()); if (!out.consistent) out.why = "name sets do not match dimensions";
      // mirrored storage: every row entry appears in the column copy with the same value
      long cnt = 0;
      for (int i = 0; i < lp.nRows() && out.consistent; i++) { const SVector& r = lp.rowVector(i);
        for (int k = 0; k < r.size() && out.consistent; k++) for (int k2 = 0; k2 < k; k2++) if (r.index(k) == r.index(k2)) { out.consistent = false; out.why = "duplicate entries for one row and column"; break; }
        for (int k = 0; k < r.size() && out.consistent; k++) { cnt++; int j = r.index(k); if (j < 0 || j >= lp.nCols() || lp.colVector(j)[i] != r.value(k)) { out.consistent = false; out.why = "row/col copies differ"; break; } } }
      long cnt2 = 0; for (int j = 0; j < lp.nCols(); j++) cnt2 += lp.colVector(j).size();
      if (out.consistent && cnt != cnt2) { out.consistent = false; out.why = "row/col nonzero counts differ"; }
    }
    return ok ? 1 : 0;
  }
  SUT_END
}
}  // namespace sut
