#include "refsimplex.h"
#include "cert.h"
#include <cmath>
namespace model {
const char* ref_name(RefStatus s) { switch (s) { case REF_OPTIMAL: return "OPTIMAL"; case REF_INFEASIBLE: return "INFEASIBLE"; case REF_UNBOUNDED: return "UNBOUNDED"; default: return "UNKNOWN"; } }

namespace {
struct Std {
  // x_j = base_j + sum_k xc[j][k] * v_k  (v >= 0), sparse as two entries max
  int nv = 0;
  std::vector<Q> base;
  std::vector<int> va, vb;        // x_j = base + sa*v[va] + sb*v[vb]
  std::vector<int> sa, sb;
  std::vector<std::vector<Q>> M;  // rows over nv structural+slack variables
  std::vector<Q> b;
  std::vector<int> origRow;       // original row index of a main row, -1 otherwise
  std::vector<int> rowSign;       // +1 / -1 (row negated to make b >= 0)
  std::vector<Q> cost; Q cost0;
};

struct Tableau {
  int R, C;                       // rows, columns (nv + R artificials); rhs kept separately
  std::vector<std::vector<Q>> T; std::vector<Q> rhs; std::vector<int> basis;
  std::vector<Q> d; Q dz;         // reduced costs, -objective
  long pivots = 0;
  void pivot(int r, int c) {
    Q pv = T[r][c];
    for (int j = 0; j < C; j++) if (T[r][j] != 0) T[r][j] /= pv;
    rhs[r] /= pv;
    for (int i = 0; i < R; i++) if (i != r && T[i][c] != 0) {
      Q f = T[i][c];
      for (int j = 0; j < C; j++) if (T[r][j] != 0) T[i][j] -= f * T[r][j];
      rhs[i] -= f * rhs[r];
    }
    if (d[c] != 0) { Q f = d[c]; for (int j = 0; j < C; j++) if (T[r][j] != 0) d[j] -= f * T[r][j]; dz -= f * rhs[r]; }
    basis[r] = c; pivots++;
  }
  void price(const std::vector<Q>& cost) {   // d = cost - cost_B * T
    d = cost; dz = 0;
    for (int i = 0; i < R; i++) { const Q& cb = cost[basis[i]]; if (cb != 0) { for (int j = 0; j < C; j++) if (T[i][j] != 0) d[j] -= cb * T[i][j]; dz -= cb * rhs[i]; } }
  }
  // returns 0 optimal, 1 unbounded (col in *ucol), 2 pivot limit
  int run(int ncand, long maxp, int* ucol) {
    for (;;) {
      int c = -1; for (int j = 0; j < ncand; j++) if (d[j] < 0) { c = j; break; }
      if (c < 0) return 0;
      int r = -1; Q best;
      for (int i = 0; i < R; i++) if (T[i][c] > 0) {
        Q ratio = rhs[i] / T[i][c];
        if (r < 0 || ratio < best || (ratio == best && basis[i] < basis[r])) { r = i; best = ratio; }
      }
      if (r < 0) { *ucol = c; return 1; }
      pivot(r, c);
      if (pivots > maxp) return 2;
    }
  }
};

void build(const LP& lp, Std& s) {
  int n = lp.ncols(), m = lp.nrows();
  int sg = -lp.sense;
  s.base.assign(n, Q(0)); s.va.assign(n, -1); s.vb.assign(n, -1); s.sa.assign(n, 0); s.sb.assign(n, 0);
  struct BoundRow { int v; Q ub; };
  std::vector<BoundRow> brow;
  for (int j = 0; j < n; j++) {
    const Ext &l = lp.lo[j], &u = lp.up[j];
    if (l.finite() && u.finite() && l.v == u.v) { s.base[j] = l.v; }
    else if (l.finite()) { s.base[j] = l.v; s.va[j] = s.nv++; s.sa[j] = 1; if (u.finite()) brow.push_back({s.va[j], Q(u.v - l.v)}); }
    else if (u.finite()) { s.base[j] = u.v; s.va[j] = s.nv++; s.sa[j] = -1; }
    else { s.va[j] = s.nv++; s.sa[j] = 1; s.vb[j] = s.nv++; s.sb[j] = -1; }
  }
  // row descriptions first (slack variables are appended after structurals)
  struct RowD { std::vector<std::pair<int, Q>> e; Q b; int orig; };
  std::vector<RowD> rows;
  auto subst = [&](int i, std::vector<std::pair<int, Q>>& e, Q& cst) {
    cst = 0;
    std::vector<Q> acc(s.nv, Q(0));
    for (int j = 0; j < n; j++) if (lp.A[i][j] != 0) {
      cst += lp.A[i][j] * s.base[j];
      if (s.va[j] >= 0) acc[s.va[j]] += lp.A[i][j] * s.sa[j];
      if (s.vb[j] >= 0) acc[s.vb[j]] += lp.A[i][j] * s.sb[j];
    }
    for (int k = 0; k < (int)acc.size(); k++) if (acc[k] != 0) e.push_back({k, acc[k]});
  };
  int nstruct = s.nv;
  for (int i = 0; i < m; i++) {
    const Ext &l = lp.lhs[i], &r = lp.rhs[i];
    if (!l.finite() && !r.finite()) continue;
    RowD rd; Q cst; subst(i, rd.e, cst); rd.orig = i;
    if (l.finite() && r.finite() && l.v == r.v) { rd.b = r.v - cst; rows.push_back(rd); }
    else if (l.finite() && !r.finite()) { int t = s.nv++; rd.e.push_back({t, Q(-1)}); rd.b = l.v - cst; rows.push_back(rd); }
    else if (!l.finite() && r.finite()) { int t = s.nv++; rd.e.push_back({t, Q(1)}); rd.b = r.v - cst; rows.push_back(rd); }
    else { int t = s.nv++; int t2 = s.nv++; rd.e.push_back({t, Q(-1)}); rd.b = l.v - cst; rows.push_back(rd);
           RowD r2; r2.orig = -1; r2.e.push_back({t, Q(1)}); r2.e.push_back({t2, Q(1)}); r2.b = r.v - l.v; rows.push_back(r2); }
  }
  for (auto& br : brow) { RowD r2; r2.orig = -1; int t = s.nv++; r2.e.push_back({br.v, Q(1)}); r2.e.push_back({t, Q(1)}); r2.b = br.ub; rows.push_back(r2); }
  (void)nstruct;
  int R = (int)rows.size();
  s.M.assign(R, std::vector<Q>(s.nv, Q(0))); s.b.resize(R); s.origRow.resize(R); s.rowSign.assign(R, 1);
  for (int k = 0; k < R; k++) {
    for (auto& e : rows[k].e) s.M[k][e.first] += e.second;
    s.b[k] = rows[k].b; s.origRow[k] = rows[k].orig;
    if (s.b[k] < 0) { s.rowSign[k] = -1; s.b[k] = -s.b[k]; for (auto& v : s.M[k]) v = -v; }
  }
  s.cost.assign(s.nv, Q(0)); s.cost0 = 0;
  for (int j = 0; j < n; j++) {
    Q c = lp.obj[j] * sg;
    s.cost0 += c * s.base[j];
    if (s.va[j] >= 0) s.cost[s.va[j]] += c * s.sa[j];
    if (s.vb[j] >= 0) s.cost[s.vb[j]] += c * s.sb[j];
  }
}
}  // namespace

static RefResult solve_core(const LP& lp, long maxp) {
  RefResult res;
  int n = lp.ncols(), m = lp.nrows();
  // trivially inconsistent bounds
  for (int j = 0; j < n; j++) if (lp.up[j] < lp.lo[j] || lp.lo[j].inf > 0 || lp.up[j].inf < 0) { res.note = "lo>up"; return res; }
  for (int i = 0; i < m; i++) if (lp.rhs[i] < lp.lhs[i] || lp.lhs[i].inf > 0 || lp.rhs[i].inf < 0) { res.note = "lhs>rhs"; return res; }
  Std s; build(lp, s);
  int R = (int)s.M.size(), nv = s.nv;
  Tableau t; t.R = R; t.C = nv + R;
  t.T.assign(R, std::vector<Q>(t.C, Q(0))); t.rhs = s.b; t.basis.resize(R);
  for (int i = 0; i < R; i++) { for (int j = 0; j < nv; j++) t.T[i][j] = s.M[i][j]; t.T[i][nv + i] = 1; t.basis[i] = nv + i; }
  std::vector<Q> c1(t.C, Q(0)); for (int i = 0; i < R; i++) c1[nv + i] = 1;
  t.price(c1);
  int ucol = -1;
  int rc = t.run(nv, maxp, &ucol);
  res.pivots = t.pivots;
  if (rc == 2) { res.note = "pivot limit (phase 1)"; return res; }
  auto xfrom = [&](std::vector<Q>& x) {
    std::vector<Q> v(nv, Q(0));
    for (int i = 0; i < R; i++) if (t.basis[i] < nv) v[t.basis[i]] = t.rhs[i];
    x.assign(n, Q(0));
    for (int j = 0; j < n; j++) { x[j] = s.base[j]; if (s.va[j] >= 0) x[j] += v[s.va[j]] * s.sa[j]; if (s.vb[j] >= 0) x[j] += v[s.vb[j]] * s.sb[j]; }
  };
  auto duals = [&](std::vector<Q>& y, int conv) {   // pi_k = cost_art_k - d_art_k ; here cost_art as priced
    y.assign(m, Q(0));
    for (int k = 0; k < R; k++) if (s.origRow[k] >= 0) {
      Q pi = -t.d[nv + k];
      y[s.origRow[k]] = pi * s.rowSign[k] * conv;
    }
  };
  Q w = -t.dz;   // phase-1 objective value
  if (w > 0) {
    // infeasible: phase-1 duals (artificial costs are 1 => pi_k = 1 - d_art_k)
    std::vector<Q> y(m, Q(0));
    for (int k = 0; k < R; k++) if (s.origRow[k] >= 0) { Q pi = Q(1) - t.d[nv + k]; y[s.origRow[k]] = pi * s.rowSign[k]; }
    std::string why;
    if (exact_farkas(lp, y, &why)) { res.status = REF_INFEASIBLE; res.farkas = y; }
    else res.note = "farkas not verified: " + why;
    return res;
  }
  // drive artificials out of the basis where possible
  for (int i = 0; i < R; i++) if (t.basis[i] >= nv) {
    int c = -1; for (int j = 0; j < nv; j++) if (t.T[i][j] != 0) { c = j; break; }
    if (c >= 0) t.pivot(i, c);
  }
  std::vector<Q> c2(t.C, Q(0)); for (int j = 0; j < nv; j++) c2[j] = s.cost[j];
  t.price(c2);
  rc = t.run(nv, maxp, &ucol);
  res.pivots = t.pivots;
  if (rc == 2) { res.note = "pivot limit (phase 2)"; return res; }
  std::vector<Q> x; xfrom(x);
  if (rc == 1) {
    // ray in v-space: v_ucol = 1, basic v_B(i) = -T[i][ucol]
    std::vector<Q> dv(nv, Q(0)); dv[ucol] = 1;
    for (int i = 0; i < R; i++) if (t.basis[i] < nv) dv[t.basis[i]] = -t.T[i][ucol];
    std::vector<Q> d(n, Q(0));
    for (int j = 0; j < n; j++) { if (s.va[j] >= 0) d[j] += dv[s.va[j]] * s.sa[j]; if (s.vb[j] >= 0) d[j] += dv[s.vb[j]] * s.sb[j]; }
    std::string why;
    if (exact_feasible(lp, x, &why) && exact_ray(lp, d, &why)) { res.status = REF_UNBOUNDED; res.x = x; res.ray = d; }
    else res.note = "ray not verified: " + why;
    return res;
  }
  std::vector<Q> y; duals(y, -lp.sense);
  Q z; std::string why;
  if (exact_optimal(lp, x, y, &z, &why)) { res.status = REF_OPTIMAL; res.x = x; res.y = y; res.z = z; }
  else res.note = "optimum not verified: " + why;
  return res;
}

static double absd(const Q& q) { return fabs(q.get_d()); }
static void margins(const LP& lp, RefResult& r) {
  int n = lp.ncols(), m = lp.nrows();
  if (r.status == REF_OPTIMAL) {
    double s = 0; for (auto& v : r.y) s += absd(v);
    for (int j = 0; j < n; j++) { Q rc = lp.obj[j]; for (int i = 0; i < m; i++) if (lp.A[i][j] != 0) rc -= lp.A[i][j] * r.y[i]; s += absd(rc); }
    r.dualnorm = s; r.margin = 1;
  } else if (r.status == REF_INFEASIBLE) {
    Q beta = 0, alpha = 0; double w = 0;
    for (int i = 0; i < m; i++) { const Q& y = r.farkas[i]; if (y > 0) beta += y * lp.lhs[i].v; else if (y < 0) beta += y * lp.rhs[i].v; w += absd(y); }
    for (int j = 0; j < n; j++) { Q v = 0; for (int i = 0; i < m; i++) if (lp.A[i][j] != 0) v += r.farkas[i] * lp.A[i][j];
      if (v > 0) alpha += v * lp.up[j].v; else if (v < 0) alpha += v * lp.lo[j].v; w += absd(v); }
    r.margin = w > 0 ? Q(beta - alpha).get_d() / w : 0;
  } else if (r.status == REF_UNBOUNDED) {
    Q cd = 0; double w = 0; for (int j = 0; j < n; j++) { Q t = lp.obj[j] * r.ray[j]; cd += t; w += absd(t); }
    r.margin = w > 0 ? fabs(cd.get_d()) / w : 0;
  }
}
RefResult ref_solve(const LP& lp, long maxp) {
  RefResult r = solve_core(lp, maxp);
  margins(lp, r);
  if (r.status == REF_INFEASIBLE) {
    // does an improving recession direction exist (LP also dual infeasible)?  max sense*c.d over the recession cone in a box
    LP rec; rec.sense = 1; int n = lp.ncols(), m = lp.nrows();
    rec.obj.resize(n); rec.lo.resize(n); rec.up.resize(n);
    for (int j = 0; j < n; j++) {
      rec.obj[j] = lp.obj[j] * lp.sense;
      rec.lo[j] = lp.lo[j].finite() ? Ext(Q(0)) : Ext(Q(-1));
      rec.up[j] = lp.up[j].finite() ? Ext(Q(0)) : Ext(Q(1));
    }
    rec.A = lp.A; rec.lhs.resize(m); rec.rhs.resize(m);
    for (int i = 0; i < m; i++) { rec.lhs[i] = lp.lhs[i].finite() ? Ext(Q(0)) : Ext::ninf(); rec.rhs[i] = lp.rhs[i].finite() ? Ext(Q(0)) : Ext::pinf(); }
    RefResult rr = solve_core(rec, maxp);
    r.pivots += rr.pivots;
    if (rr.status == REF_OPTIMAL) { r.dual_known = true; r.dual_infeasible = (rr.z > 0); if (r.dual_infeasible) r.ray = rr.x; }
  }
  if (r.status == REF_UNBOUNDED) {
    // an unbounded LP whose feasible region exists only "at infinity" (see the box test below): INFEASIBLE is as good an answer
    int n = lp.ncols();
    LP bx = lp; for (auto& c : bx.obj) c = 0; bx.offset = 0; const Q M(100000000);
    for (int j = 0; j < n; j++) { if (!bx.lo[j].finite() || bx.lo[j].v < -M) bx.lo[j] = Ext(Q(-M)); if (!bx.up[j].finite() || bx.up[j].v > M) bx.up[j] = Ext(M); if (bx.up[j] < bx.lo[j]) bx.up[j] = bx.lo[j]; }
    RefResult br = solve_core(bx, maxp); r.pivots += br.pivots;
    if (br.status != REF_OPTIMAL) r.feas_fragile = true;
  }
  if (r.status == REF_OPTIMAL) {
    // Is the class OPTIMAL robust against tolerances?  (a) feasibility: shrink every inequality; (b) boundedness: look for a
    // recession direction with |d|_inf >= 1/2 that loses less than delta of objective.  A floating-point solver with 1e-6
    // tolerances cannot be asked to tell such LPs from infeasible / unbounded ones, so the verdict oracles skip them.
    const Q delta(1, 1000); int n = lp.ncols(), m = lp.nrows();
    auto mag = [](const Q& v) -> Q { Q a = v < 0 ? Q(-v) : v; return Q(a + 1); };
    LP t = lp; for (auto& c : t.obj) c = 0; t.offset = 0;
    for (int j = 0; j < n; j++) {
      bool lf = t.lo[j].finite(), uf = t.up[j].finite();
      if (lf && uf && !(t.lo[j].v < t.up[j].v)) continue;
      Q nl = lf ? Q(t.lo[j].v + delta * mag(t.lo[j].v)) : Q(0), nu = uf ? Q(t.up[j].v - delta * mag(t.up[j].v)) : Q(0);
      if (lf && uf && !(nl < nu)) { nl = nu = (t.lo[j].v + t.up[j].v) / 2; }
      if (lf) t.lo[j].v = nl; if (uf) t.up[j].v = nu;
    }
    for (int i = 0; i < m; i++) {
      bool lf = t.lhs[i].finite(), uf = t.rhs[i].finite();
      if (lf && uf && !(t.lhs[i].v < t.rhs[i].v)) continue;
      Q nl = lf ? Q(t.lhs[i].v + delta * mag(t.lhs[i].v)) : Q(0), nu = uf ? Q(t.rhs[i].v - delta * mag(t.rhs[i].v)) : Q(0);
      if (lf && uf && !(nl < nu)) { nl = nu = (t.lhs[i].v + t.rhs[i].v) / 2; }
      if (lf) t.lhs[i].v = nl; if (uf) t.rhs[i].v = nu;
    }
    RefResult tr = solve_core(t, maxp); r.pivots += tr.pivots;
    if (tr.status != REF_OPTIMAL) r.feas_fragile = true;
    if (!r.feas_fragile) {
      // feasible only "at infinity": two rows that are parallel up to the rounding of one coefficient (3 x0 - 2 x3 <= -12 and
      // x0 - 0.66666666666666663 x3 >= 7) admit points only at |x| ~ 1e17, where no floating-point solver can satisfy a row to
      // 1e-6.  If the LP has no feasible point inside the box |x_j| <= 1e8 the verdict oracles skip it as well.
      LP bx = lp; for (auto& c : bx.obj) c = 0; bx.offset = 0; const Q M(100000000);
      for (int j = 0; j < n; j++) { if (!bx.lo[j].finite() || bx.lo[j].v < -M) bx.lo[j] = Ext(Q(-M)); if (!bx.up[j].finite() || bx.up[j].v > M) bx.up[j] = Ext(M); if (bx.up[j] < bx.lo[j]) bx.up[j] = bx.lo[j]; }
      RefResult br = solve_core(bx, maxp); r.pivots += br.pivots;
      if (br.status != REF_OPTIMAL) r.feas_fragile = true;
    }
    LP rec; rec.sense = 1; rec.obj.assign(n, Q(0)); rec.lo.resize(n); rec.up.resize(n);
    for (int j = 0; j < n; j++) { rec.lo[j] = lp.lo[j].finite() ? Ext(Q(0)) : Ext(Q(-1)); rec.up[j] = lp.up[j].finite() ? Ext(Q(0)) : Ext(Q(1)); }
    rec.A = lp.A; rec.lhs.resize(m); rec.rhs.resize(m);
    // rows are relaxed by delta as well: a direction that leaves a row by 1e-16 per unit step (a coefficient that is the double
    // image of 1/3, say) bounds the LP only at 1e16, which no floating-point solver can be asked to find
    for (int i = 0; i < m; i++) { rec.lhs[i] = lp.lhs[i].finite() ? Ext(Q(-delta)) : Ext::ninf(); rec.rhs[i] = lp.rhs[i].finite() ? Ext(Q(delta)) : Ext::pinf(); }
    std::vector<Q> crow(n); for (int j = 0; j < n; j++) crow[j] = lp.obj[j] * lp.sense;
    rec.A.push_back(crow); rec.lhs.push_back(Ext(Q(-delta))); rec.rhs.push_back(Ext::pinf());
    for (int j = 0; j < n && !r.bounded_fragile; j++) for (int sg = -1; sg <= 1 && !r.bounded_fragile; sg += 2) {
      if ((sg > 0 && lp.up[j].finite()) || (sg < 0 && lp.lo[j].finite())) continue;
      rec.obj.assign(n, Q(0)); rec.obj[j] = sg;
      RefResult rr = solve_core(rec, maxp); r.pivots += rr.pivots;
      if (rr.status != REF_OPTIMAL || rr.z >= Q(1, 2)) r.bounded_fragile = true;
    }
  }
  return r;
}
}  // namespace model
