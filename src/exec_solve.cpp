// optimize op with stop faults, and the oracles evaluated at every optimize return
#include "exec.h"
#include "cert.h"
#include <sstream>
#include <cstring>
#include <cmath>
#include <climits>

namespace sim {
using model::Q; using model::Ext; using model::LP;
namespace P { int b(const std::string& n); int i(const std::string& n); int r(const std::string& n); }

static bool is_abort(int st) { return st == sut::ST_ABORT_TIME || st == sut::ST_ABORT_ITER || st == sut::ST_ABORT_VALUE; }
static bool is_final(int st) { return st == sut::ST_OPTIMAL || st == sut::ST_INFEASIBLE || st == sut::ST_UNBOUNDED || st == sut::ST_INForUNBD; }
static std::vector<Q> toQ(const std::vector<double>& v) { std::vector<Q> r(v.size()); for (size_t i = 0; i < v.size(); i++) r[i] = model::q_from_double(v[i]); return r; }
static bool finite_all(const std::vector<double>& v) { for (double d : v) if (!std::isfinite(d)) return false; return true; }
static std::string dstr(double d) { char buf[64]; snprintf(buf, sizeof buf, "%.17g", d); return buf; }

static bool is_rational_mode(sut::Sut& s);
void Executor::observe_solution(Obj& o) {
  auto& s = *o.s;
  observe_i(o, s.status()); observe_i(o, s.numIterations()); observe_i(o, s.hasSol()); observe_i(o, s.hasBasis());
  observe_i(o, s.isPrimalFeasible()); observe_i(o, s.isDualFeasible()); observe_i(o, s.hasPrimalRay()); observe_i(o, s.hasDualFarkas());
  std::vector<double> v;
  if (is_rational_mode(s) && s.getInt(P::i("syncmode")) != 0) {
    // an exact solve is observed through the rational getters only: the real getters convert (and cache) the rational solution
    auto obsq = [&](const std::vector<Q>& q) { for (auto& e : q) { std::string t = e.get_str(); observe(o, t.data(), t.size()); } };
    if (s.hasSol()) { std::string t = s.objValueQ().get_str(); observe(o, t.data(), t.size()); std::vector<Q> q; if (s.getPrimalQ(q)) obsq(q); if (s.getDualQ(q)) obsq(q); if (s.getRedCostQ(q)) obsq(q); if (s.getSlacksQ(q)) obsq(q); }
    if (s.hasBasis()) { std::vector<int> r, c; s.getBasis(r, c); observe(o, r.data(), r.size() * 4); observe(o, c.data(), c.size() * 4); }
    return;
  }
  if (s.hasSol()) {
    observe_d(o, s.objValue());
    if (s.getPrimal(v)) observe(o, v.data(), v.size() * 8);
    if (s.getSlacks(v)) observe(o, v.data(), v.size() * 8);
    if (s.getDual(v)) observe(o, v.data(), v.size() * 8);
    if (s.getRedCost(v)) observe(o, v.data(), v.size() * 8);
  }
  if (s.hasPrimalRay() && s.getPrimalRay(v)) observe(o, v.data(), v.size() * 8);
  if (s.hasDualFarkas() && s.getDualFarkas(v)) observe(o, v.data(), v.size() * 8);
  if (s.hasBasis()) { std::vector<int> r, c; s.getBasis(r, c); observe(o, r.data(), r.size() * 4); observe(o, c.data(), c.size() * 4); }
}

void Executor::op_optimize(const Op& op, TaskCtx& t) {
  Obj* o = obj(op.obj); if (!o) return;
  auto& s = *o->s;
  std::string stop = op.get("stop", "none");
  long k = op.geti("k", 0);
  double inf = s.getReal(P::r("infty"));
  op_begin(t);
  bool passptr = op.geti("passptr", 0) != 0;
  bool rational = is_rational_mode(s);
  // ---- arm the stop fault
  if (stop == "iter") { s.setInt(P::i("iterlimit"), (int)k); o->pm.i[P::i("iterlimit")] = (int)k; }
  else if (stop == "clock") {
    if (s.getInt(P::i("timer")) == 0) stop = "none";
    else {
      double lim = atof(op.get("limit", "1000").c_str());
      s.setReal(P::r("timelimit"), lim); o->pm.r[P::r("timelimit")] = lim;
      if (lim > 0) { t.jump_at_read = k; t.jump_ns = (int64_t)(2.0 * lim * 1e9) + 1000000000ll; }
    }
  }
  else if (stop == "intr_point") { t.intr_at_point = k; passptr = true; t.intr_lower_after = op.geti("lower_after", -1); }
  else if (stop == "intr_log") { t.intr_at_log = k; passptr = true; }
  else if (stop == "intr_read") { t.intr_at_read = k; passptr = true; }
  else if (stop == "reflimit") { s.setInt(P::i("reflimit"), (int)k); o->pm.i[P::i("reflimit")] = (int)k; }
  else if (stop == "stallref") { s.setInt(P::i("stallreflimit"), (int)k); o->pm.i[P::i("stallreflimit")] = (int)k; }
  else if (stop == "objlim") {
    const model::RefResult& ref = ref_of(*o, rational);
    if (ref.status != model::REF_OPTIMAL) stop = "none";
    else {
      Q delta(op.get("delta", "0")); delta.canonicalize();
      double lim = Q(ref.z + delta).get_d();
      if (op.get("side", "upper") == "upper") { s.setReal(P::r("objlimit_upper"), lim); o->pm.r[P::r("objlimit_upper")] = lim; }
      else { s.setReal(P::r("objlimit_lower"), lim); o->pm.r[P::r("objlimit_lower")] = lim; }
    }
  }
  o->free_row_nonbasic = false;
  if (s.hasBasis()) { double fi = s.getReal(P::r("infty")); for (int i = 0; i < s.numRows(); i++) if (s.lhs(i) <= -fi && s.rhs(i) >= fi && s.basisRowStatus(i) != sut::VS_BASIC) o->free_row_nonbasic = true; }
  bool guard_ref = false;
  if (rational && s.getInt(P::i("reflimit")) < 0) {
    // bound the cost of one exact solve; without reconstruction and factorization the refinement loop has no finite termination
    // criterion at all (see C03). A solve that ends by this guard alone is counted as inconclusive, never judged.
    int g = (!s.getBool(P::b("ratrec")) && !s.getBool(P::b("ratfac"))) ? 12 : 60;
    s.setInt(P::i("reflimit"), g); o->pm.i[P::i("reflimit")] = g; guard_ref = true; count("reflimit_guard");
  }
  uint64_t bugs_before = t.bug_fired[0] + t.bug_fired[1] + t.bug_fired[2];
  int st = s.optimize(passptr ? &t.interrupt_flag : nullptr);
  bool flag_was_up = t.interrupt_flag;
  uint64_t bugs = t.bug_fired[0] + t.bug_fired[1] + t.bug_fired[2] - bugs_before;
  t.interrupt_flag = false;
  o->optimize_calls++;
  o->last_status = st;
  if (bugs) o->buggified_since_change = true;
  count(std::string("status:") + sut::status_name(st));
  count("optimize_calls");
  if (rational) count("optimize_rational");
  if (stop != "none") count("stop_armed:" + stop);
  if (is_abort(st)) { count("aborted_solves"); res_.nontrivial = true; }
  if (opt_.verbose) fprintf(stderr, "[op %d] %s -> %s iters=%d hasBasis=%d hasSol=%d obj=%s vclock=%.3f reads=%llu points=%llu\n", cur_op_, op.text().c_str(), sut::status_name(st), s.numIterations(), (int)s.hasBasis(), (int)s.hasSol(), s.hasSol() ? dstr(s.objValue()).c_str() : "-", virtual_seconds(t), (unsigned long long)t.reads_in_op, (unsigned long long)t.points_in_op);
  observe_solution(*o);
  check_after_optimize(*o, op, st, flag_was_up, stop, k, t, guard_ref, bugs > 0);
  if (guard_ref) { s.setInt(P::i("reflimit"), -1); o->pm.i[P::i("reflimit")] = -1; }
  if (is_abort(st)) o->stopped_since_change = true;
  else if (is_final(st)) { o->stopped_since_change = false; }
  if (is_final(st)) o->modified_since_solve = false;
}

static bool is_rational_mode(sut::Sut& s) {
  int m = s.getInt(P::i("solvemode"));
  return m == 2 || (m == 1 && !(s.getReal(P::r("feastol")) >= 1e-9 && s.getReal(P::r("opttol")) >= 1e-9));
}

void Executor::check_after_optimize(Obj& o, const Op& op, int st, bool flag_was_up, const std::string& stop, long k, TaskCtx& t, bool guard_ref, bool bugs_fired) {
  auto& s = *o.s;
  bool rational = is_rational_mode(s);
  bool exact_tols = s.getReal(P::r("feastol")) == 0 && s.getReal(P::r("opttol")) == 0;
  double inf = s.getReal(P::r("infty"));
  // which limits are armed right now (from the parameter model, so that shrunk plans stay meaningful)
  bool iterArmed = s.getInt(P::i("iterlimit")) >= 0;
  bool refArmed = (s.getInt(P::i("reflimit")) >= 0 && !guard_ref) || s.getInt(P::i("stallreflimit")) >= 0;
  if (guard_ref && st == sut::ST_ABORT_ITER && !iterArmed && !refArmed) { count("inconclusive_reflimit_guard"); return; }
  bool timeArmed = s.getReal(P::r("timelimit")) < inf;
  bool objArmed = s.getReal(P::r("objlimit_lower")) > -inf || s.getReal(P::r("objlimit_upper")) < inf;
  bool intrArmed = (stop == "intr_point" || stop == "intr_log" || stop == "intr_read");
  bool anyArmed = iterArmed || refArmed || timeArmed || objArmed || intrArmed;
  auto ctx = ctx_of(o);
  ctx["stop"] = stop; ctx["status"] = sut::status_name(st);

  // ---------------- C16 (a): honest status
  if (opt_.want("C16")) {
    if (st == sut::ST_ABORT_ITER && !(iterArmed || refArmed)) viol("C16", "abort_status_of_unset_limit", "ABORT_ITER without iteration/refinement limit; " + op.text(), ctx);
    if (st == sut::ST_ABORT_TIME && !(timeArmed || (intrArmed && (flag_was_up || t.fired_intr)))) viol("C16", "abort_status_of_unset_limit", "ABORT_TIME without time limit or interrupt; " + op.text(), ctx);
    if (st == sut::ST_ABORT_VALUE && !objArmed) viol("C16", "abort_status_of_unset_limit", "ABORT_VALUE without objective limit; " + op.text(), ctx);
    // (b) iteration budget
    if (iterArmed && s.numIterations() > s.getInt(P::i("iterlimit"))) {
      std::ostringstream d; d << "numIterations()=" << s.numIterations() << " > ITERLIMIT=" << s.getInt(P::i("iterlimit"));
      viol("C16", "iterations_exceed_limit", d.str(), ctx);
    }
    // (e) ABORT_VALUE only if the optimum lies beyond the limit
    if (st == sut::ST_ABORT_VALUE && !rational) {
      const model::RefResult& ref = ref_of(o, false);
      if (ref.status == model::REF_OPTIMAL) {
        double z = ref.z.get_d(), tol = 1e-5 * (1 + fabs(z) + ref.dualnorm);
        bool beyond = (o.lp.sense < 0) ? (z >= s.getReal(P::r("objlimit_upper")) - tol) : (z <= s.getReal(P::r("objlimit_lower")) + tol);
        if (!beyond) { std::ostringstream d; d << "ABORT_VALUE but optimum " << z << " is not beyond the limit [" << s.getReal(P::r("objlimit_lower")) << "," << s.getReal(P::r("objlimit_upper")) << "] sense " << o.lp.sense;
          viol("C16", "abort_value_not_beyond_limit", d.str(), ctx); }
      } else if (ref.status == model::REF_INFEASIBLE && ref.margin >= 1e-4) {
        count("abort_value_on_infeasible");
      }
    }
    if ((st == sut::ST_ABORT_CYCLING || st == sut::ST_SINGULAR) && anyArmed) count(std::string("solver_gave_up:") + sut::status_name(st));   // gave up for its own reason: not stopped by the limit, not a verdict
    else if (!is_abort(st) && !is_final(st) && st != sut::ST_OPTIMAL_UNSCALED_VIOLATIONS && s.numCols() > 0 && anyArmed && !bugs_fired) {
      // a stopped solve must report the stop. Whether the stop or the solver itself produced this status is decided by the
      // uninterrupted twin: only if the twin reaches a verdict is the status of the stopped solve dishonest.
      int st2 = twin_solve(o, t, nullptr);
      if (is_final(st2)) viol("C16", (std::string("dishonest_status_after_stop:") + sut::status_name(st)).c_str(), std::string("stopped solve returned ") + sut::status_name(st) + ", the uninterrupted solve of the same LP and settings returns " + sut::status_name(st2) + "; " + op.text(), ctx);
      else count(std::string("solver_gave_up:") + sut::status_name(st));
    }
    // (f) bounded liveness statistics
    if (flag_was_up && t.intr_lower_after < 0) {
      res_.counters["max_pivots_after_interrupt"] = std::max(res_.counters["max_pivots_after_interrupt"], (long)t.points_after_raise);
      if (t.points_after_raise > 3 && s.getInt(P::i("simplifier")) == 0 && s.getInt(P::i("scaler")) == 0 && !rational && t.bug_mask == 0) {
        std::ostringstream d; d << t.points_after_raise << " pivots after the interrupt flag was raised (simplifier and scaler off)";
        viol("C16", "interrupt_not_honoured_promptly", d.str(), ctx);
      }
    }
    if (t.jump_done) res_.counters["max_pivots_after_clock_jump"] = std::max(res_.counters["max_pivots_after_clock_jump"], (long)t.points_after_jump);
  }

  // ---------------- verdicts (C01/C02 real, C03 rational)
  bool complete = !anyArmed && t.bug_mask == 0 && !t.cap_hit;
  if (o.untrusted_model) { count("untrusted_model_not_judged"); return; }
  if (is_final(st) || complete) {
    if (rational) { if (opt_.want("C03") && exact_tols) check_verdict_rational(o, st, complete && !guard_ref); }
    else if (opt_.want("C01") || opt_.want("C02") || opt_.want("C16") || opt_.want("C09") || opt_.want("C06")) { std::vector<std::string> also; if (o.stopped_since_change) also.push_back("C16"); if (o.modified_since_solve && o.optimize_calls > 1) also.push_back("C06"); if (s.peekIsRealLPScaled() || (s.getInt(P::i("scaler")) != 0)) also.push_back("C09");
      check_verdict_real(o, st, complete && !bugs_fired, also); }
  }
  // ---------------- C16 (d): resume reaches what an uninterrupted solve reaches
  if (opt_.want("C16") && o.stopped_since_change && !anyArmed && !t.cap_hit) {
    count("resumes");
    double twinobj = 0;
    int st2 = twin_solve(o, t, &twinobj);
    const model::RefResult& ref = ref_of(o, rational);
    bool pdinf = ref.status == model::REF_INFEASIBLE && ref.dual_known && ref.dual_infeasible;
    auto cls = [&](int x) { if (pdinf && (x == sut::ST_INFEASIBLE || x == sut::ST_UNBOUNDED || x == sut::ST_INForUNBD)) return 100; return x; };
    ctx["twin"] = sut::status_name(st2);
    // knife-edge LPs (see refsimplex.cpp): two legitimate runs may land on different sides of the tolerance
    bool fragile = !rational && ((ref.status == model::REF_OPTIMAL && (ref.feas_fragile || ref.bounded_fragile)) || (ref.status != model::REF_OPTIMAL && ref.status != model::REF_UNKNOWN && ref.margin < 1e-4));
    if (fragile && is_final(st2) && is_final(st) && cls(st) != cls(st2)) count("fragile_skipped");
    else if (is_final(st2) && cls(st) != cls(st2) && !bugs_fired) {
      viol("C16", (std::string("resume_status_differs:") + sut::status_name(st)).c_str(), std::string("resumed solve returned ") + sut::status_name(st) + ", uninterrupted solve of the same LP and settings returns " + sut::status_name(st2), ctx);
    } else if (st == sut::ST_OPTIMAL && st2 == sut::ST_OPTIMAL) {
      double a = rational ? s.objValueQ().get_d() : s.objValue(), b = twinobj;
      double tol = 1e-5 * (1 + fabs(b) + (ref.status == model::REF_OPTIMAL ? ref.dualnorm : 0));
      if (!(fabs(a - b) <= tol)) { std::ostringstream d; d << "resumed optimum " << dstr(a) << " vs uninterrupted " << dstr(b); viol("C16", "resume_value_differs", d.str(), ctx); }
    }
  }
  // ---------------- basis oracles
  if (s.hasBasis()) {
    if (opt_.want("C04") || opt_.want("C16")) check_basis(o, true);
    if (opt_.want("C05")) check_inverse(o);
  } else if (is_abort(st) && opt_.want("C16") && !rational && o.lp.nrows() > 0 && s.numIterations() > 0) {
    count("abort_without_basis");
  }
}

int Executor::twin_solve(Obj& o, TaskCtx& t, double* objval) {
  auto& s = *o.s;
  bool rational = is_rational_mode(s);
  sut::Sut twin;
  auto& pi = sut::param_info();
  for (int p = 0; p < pi.nbool; p++) twin.setBool(p, s.getBool(p));
  for (int p = 0; p < pi.nint; p++) twin.setInt(p, s.getInt(p));
  for (int p = 0; p < pi.nreal; p++) twin.setReal(p, s.getReal(p));
  twin.setSeed(s.seed());
  double inf = s.getReal(P::r("infty"));
  twin.setInt(P::i("iterlimit"), -1); twin.setInt(P::i("stallreflimit"), -1);
  twin.setReal(P::r("timelimit"), inf); twin.setReal(P::r("objlimit_lower"), -inf); twin.setReal(P::r("objlimit_upper"), inf);
  if (rational) twin.setInt(P::i("reflimit"), 60); else twin.setInt(P::i("reflimit"), -1);
  load_model(twin, o.lp, o.ever_rational, inf);
  uint32_t savemask = t.bug_mask; t.bug_mask = 0;
  int64_t sj = t.jump_at_read, si = t.intr_at_point, sl = t.intr_at_log, sr = t.intr_at_read; t.jump_at_read = t.intr_at_point = t.intr_at_log = t.intr_at_read = -1;
  int st2 = twin.optimize(nullptr);
  t.bug_mask = savemask; t.jump_at_read = sj; t.intr_at_point = si; t.intr_at_log = sl; t.intr_at_read = sr;
  if (objval && st2 == sut::ST_OPTIMAL) *objval = rational ? twin.objValueQ().get_d() : twin.objValue();
  count("twin_solves");
  return st2;
}

// ------------------------------------------------------------------ real-mode verdicts
void Executor::check_verdict_real(Obj& o, int st, bool complete, const std::vector<std::string>& also) {
  auto& s = *o.s;
  if (s.numCols() == 0) { count("empty_lp_not_judged"); return; }
  const model::RefResult& ref = ref_of(o, false);
  if (ref.status == model::REF_UNKNOWN) { count("ref_unknown"); return; }
  LP img = real_image(o.lp);
  auto ctx = ctx_of(o);
  model::Tol tol; tol.feas = std::max(s.getReal(P::r("feastol")), 1e-9); tol.opt = std::max(s.getReal(P::r("opttol")), 1e-9);
  bool robust = ref.margin >= 1e-4;
  const char* p1 = "C01"; const char* p2 = "C02";
  auto both = [&](const char* prop, const char* oracle, const std::string& d) {
    viol(prop, oracle, d, ctx);
    for (auto& a : also) {
      const char* pre = a == "C16" ? "resume_" : a == "C06" ? "warmstart_" : "scaled_";
      // C09 speaks about the space the returned vectors live in, not about completeness or verdicts
      static const char* c09ok[] = {"slack_not_activity", "primal_infeasible", "dual_infeasible", "redcost_not_stationary", "complementarity", "objective_not_cx_plus_offset", "ray_invalid", "farkas_invalid", "farkas_sign"};
      if (a == "C09") { bool okk = false; for (auto w : c09ok) if (std::string(w) == oracle) okk = true; if (!okk) { count("c09_not_a_vector_oracle"); continue; } }
      viol(a.c_str(), (std::string(pre) + oracle).c_str(), d, ctx); } };
  if (st == sut::ST_OPTIMAL) {
    count("verdict_checked_optimal");
    if (ref.status != model::REF_OPTIMAL) { if (robust) both(p2, "optimal_without_optimum", std::string("OPTIMAL returned, exact reference says ") + model::ref_name(ref.status)); else count("fragile_skipped"); return; }
    std::vector<double> x, sl, y, rc; std::string why;
    bool gp = s.getPrimal(x), gs = s.getSlacks(sl), gd = s.getDual(y), gr = s.getRedCost(rc);
    if (!gp || !gs || !gd || !gr) { both(p1, "optimal_without_vectors", "a solution vector getter returned false after OPTIMAL"); return; }
    if (!finite_all(x) || !finite_all(sl) || !finite_all(y) || !finite_all(rc)) { both(p1, "nonfinite_solution", "non-finite entry in a solution vector"); return; }
    std::vector<Q> xq = toQ(x), sq = toQ(sl), yq = toQ(y), rq = toQ(rc);
    if (!model::tol_primal(img, xq, &sq, tol, &why)) { both(p1, why.compare(0, 9, "slack!=Ax") == 0 ? "slack_not_activity" : "primal_infeasible", why); return; }
    if (!model::tol_dual(img, yq, &rq, tol, &why)) { both(p1, why.compare(0, 7, "redcost") == 0 && why.find("!=") != std::string::npos ? "redcost_not_stationary" : "dual_infeasible", why); return; }
    if (!model::tol_gap(img, xq, yq, tol, &why)) { both(p1, "complementarity", why); return; }
    double z = ref.z.get_d(), ov = s.objValue(), cx = model::objective(img, xq).get_d();
    double otol = (tol.feas + tol.opt) * 10 * (1 + fabs(z) + ref.dualnorm * 1.0);
    if (!(fabs(ov - cx) <= 1e-9 * (1 + fabs(cx)) + 1e-9 * otol / 1e-5)) { std::ostringstream d; d << "objValueReal()=" << dstr(ov) << " but c.x+offset=" << dstr(cx); both(p1, "objective_not_cx_plus_offset", d.str()); return; }
    if (!(fabs(ov - z) <= otol)) { std::ostringstream d; d << "objective " << dstr(ov) << " vs true optimum " << dstr(z); both(p1, "objective_not_optimal", d.str()); return; }
    if (!s.isPrimalFeasible() || !s.isDualFeasible()) count("optimal_but_feasible_flags_false");
  } else if (st == sut::ST_INFEASIBLE) {
    count("verdict_checked_infeasible");
    if ((ref.status == model::REF_OPTIMAL || ref.status == model::REF_UNBOUNDED) && ref.feas_fragile) { count("fragile_skipped"); return; }
    if (ref.status != model::REF_INFEASIBLE) { both(p2, "infeasible_but_feasible", std::string("INFEASIBLE returned, exact reference says ") + model::ref_name(ref.status)); return; }
    if (s.hasDualFarkas()) {
      std::vector<double> y; std::string why;
      if (!s.getDualFarkas(y) || !finite_all(y)) { both(p2, "farkas_getter_failed", "hasDualFarkas() but getter failed / non-finite"); return; }
      std::vector<Q> yq = toQ(y);
      if (!model::tol_farkas(img, yq, tol, &why)) {
        std::vector<Q> neg(yq); for (auto& v : neg) v = -v; std::string w2;
        if (model::tol_farkas(img, neg, tol, &w2)) both(p2, "farkas_sign", "the negated vector is a proof, the returned one is not: " + why);
        else both(p2, "farkas_invalid", why);
        return;
      }
      count("farkas_checked");
    } else if (s.getBool(P::b("ensureray"))) both(p2, "ensureray_no_farkas", "INFEASIBLE with ensureray but no Farkas proof offered");
  } else if (st == sut::ST_UNBOUNDED || st == sut::ST_INForUNBD) {
    count("verdict_checked_unbounded");
    if (ref.status == model::REF_OPTIMAL && (ref.bounded_fragile || (st == sut::ST_INForUNBD && ref.feas_fragile))) { count("fragile_skipped"); return; }
    if (ref.status == model::REF_OPTIMAL) { both(p2, "unbounded_but_optimum_exists", std::string(sut::status_name(st)) + " returned, LP has finite optimum " + dstr(ref.z.get_d())); return; }
    if (st == sut::ST_UNBOUNDED && ref.status == model::REF_INFEASIBLE && ref.dual_known && !ref.dual_infeasible && robust) {
      both(p2, "unbounded_but_infeasible_dual_feasible", "UNBOUNDED returned for an infeasible LP that has no improving recession direction"); return; }
    if (s.hasPrimalRay()) {
      std::vector<double> d; std::string why;
      if (!s.getPrimalRay(d) || !finite_all(d)) { both(p2, "ray_getter_failed", "hasPrimalRay() but getter failed / non-finite"); return; }
      if (!model::tol_ray(img, toQ(d), tol, &why)) { both(p2, "ray_invalid", why); return; }
      count("ray_checked");
    } else if (st == sut::ST_UNBOUNDED && s.getBool(P::b("ensureray"))) both(p2, "ensureray_no_ray", "UNBOUNDED with ensureray but no primal ray offered");
  }
  // completeness: a finite optimum must be found once faults have stopped
  if (complete && ref.status == model::REF_OPTIMAL && st != sut::ST_OPTIMAL && st != sut::ST_OPTIMAL_UNSCALED_VIOLATIONS && !is_abort(st)) {
    both(p1, (std::string("finite_optimum_not_solved:") + sut::status_name(st)).c_str(), std::string("LP has optimum ") + dstr(ref.z.get_d()) + " but optimize returned " + sut::status_name(st));
  }
  if (st == sut::ST_OPTIMAL_UNSCALED_VIOLATIONS) count("optimal_unscaled_violations");
}

// ------------------------------------------------------------------ rational-mode verdicts (exact, zero tolerance)
void Executor::check_verdict_rational(Obj& o, int st, bool complete) {
  auto& s = *o.s;
  const model::RefResult& ref = ref_of(o, true);
  if (ref.status == model::REF_UNKNOWN) { count("ref_unknown"); return; }
  auto ctx = ctx_of(o);
  const LP& lp = o.lp;
  if (st == sut::ST_OPTIMAL) {
    count("exact_checked_optimal");
    if (ref.status != model::REF_OPTIMAL) { viol("C03", "optimal_without_optimum", std::string("exact OPTIMAL, reference says ") + model::ref_name(ref.status), ctx); return; }
    std::vector<Q> x, y, rc, sl; std::string why; Q z;
    if (!s.getPrimalQ(x) || !s.getDualQ(y) || !s.getRedCostQ(rc) || !s.getSlacksQ(sl)) { viol("C03", "optimal_without_vectors", "rational getter returned false", ctx); return; }
    if (!model::exact_optimal(lp, x, y, &z, &why)) { viol("C03", "not_exactly_optimal", why, ctx); return; }
    for (int j = 0; j < lp.ncols(); j++) { Q r = lp.obj[j]; for (int i = 0; i < lp.nrows(); i++) if (lp.A[i][j] != 0) r -= lp.A[i][j] * y[i]; if (r != rc[j]) { viol("C03", "redcost_not_exact", "redcost != c - A^T y at column " + std::to_string(j), ctx); return; } }
    for (int i = 0; i < lp.nrows(); i++) { Q a = 0; for (int j = 0; j < lp.ncols(); j++) if (lp.A[i][j] != 0) a += lp.A[i][j] * x[j]; if (a != sl[i]) { viol("C03", "slack_not_exact", "slack != A x at row " + std::to_string(i), ctx); return; } }
    Q ov = s.objValueQ();
    if (ov != z) { viol("C03", "objective_not_exact", "objValueRational()=" + ov.get_str() + " but c.x+offset=" + z.get_str(), ctx); return; }
    if (z != ref.z) { viol("C03", "objective_not_optimal", "exact objective " + z.get_str() + " vs true optimum " + ref.z.get_str(), ctx); return; }
  } else if (st == sut::ST_INFEASIBLE) {
    count("exact_checked_infeasible");
    if (ref.status != model::REF_INFEASIBLE) { viol("C03", "infeasible_but_feasible", std::string("exact INFEASIBLE, reference says ") + model::ref_name(ref.status), ctx); return; }
    std::vector<Q> y; std::string why;
    if (!s.hasDualFarkas() || !s.getDualFarkasQ(y)) { viol("C03", "infeasible_without_farkas", "exact INFEASIBLE without Farkas proof", ctx); return; }
    if (!model::exact_farkas(lp, y, &why)) {
      std::vector<Q> neg(y); for (auto& v : neg) v = -v; std::string w2;
      // the floating-point getter returns the same sign for both objective senses; the rational one flips it for MAXIMIZE
      // the property asks for an exact proof, not for a sign convention: -y certifies infeasibility as well as y does
      // (the rational getter returns the floating-point getter's vector negated for MAXIMIZE problems - noted in DESIGN.md)
      if (model::exact_farkas(lp, neg, &w2)) count(lp.sense > 0 ? "exact_farkas_negated_convention_max" : "exact_farkas_negated_convention_min");
      else { viol("C03", "farkas_not_exact", why, ctx); return; } }
  } else if (st == sut::ST_UNBOUNDED) {
    count("exact_checked_unbounded");
    if (ref.status == model::REF_OPTIMAL || (ref.status == model::REF_INFEASIBLE && ref.dual_known && !ref.dual_infeasible)) { viol("C03", "unbounded_wrong", std::string("exact UNBOUNDED, reference says ") + model::ref_name(ref.status), ctx); return; }
    std::vector<Q> d; std::string why;
    if (!s.hasPrimalRay() || !s.getPrimalRayQ(d)) { viol("C03", "unbounded_without_ray", "exact UNBOUNDED without primal ray", ctx); return; }
    if (!model::exact_ray(lp, d, &why)) { viol("C03", "ray_not_exact", why, ctx); return; }
  } else if (st == sut::ST_INForUNBD) {
    if (ref.status == model::REF_OPTIMAL) { viol("C03", "inforunbd_wrong", "exact INForUNBD but LP has a finite optimum", ctx); return; }
  }
  if (complete && !is_final(st) && s.getBool(P::b("ratrec")) + s.getBool(P::b("ratfac")) > 0) {
    viol("C03", "not_decided", std::string("exact solve with faults lifted returned ") + sut::status_name(st) + ", reference " + model::ref_name(ref.status), ctx);
  }
  if (complete && is_final(st)) {
    bool pdinf = ref.status == model::REF_INFEASIBLE && ref.dual_known && ref.dual_infeasible;
    bool ok = (ref.status == model::REF_OPTIMAL && st == sut::ST_OPTIMAL) || (ref.status == model::REF_INFEASIBLE && (st == sut::ST_INFEASIBLE || (pdinf && st != sut::ST_OPTIMAL))) ||
              (ref.status == model::REF_UNBOUNDED && (st == sut::ST_UNBOUNDED || st == sut::ST_INForUNBD));
    if (!ok) viol("C03", "wrong_status", std::string("exact solve returned ") + sut::status_name(st) + ", true status " + model::ref_name(ref.status), ctx);
  }
}

// ------------------------------------------------------------------ C04 basis
void Executor::check_basis(Obj& o, bool from_solve) {
  auto& s = *o.s;
  int m = s.numRows(), n = s.numCols();
  auto ctx = ctx_of(o);
  ctx["basisstatus"] = std::to_string(s.basisStatus());
  count("basis_checked");
  std::vector<int> rows, cols; s.getBasis(rows, cols);
  o.lastRows = rows; o.lastCols = cols;
  int nb = 0; std::string why;
  double inf = s.getReal(P::r("infty"));
  for (int i = 0; i < m && why.empty(); i++) {
    int st = rows[i];
    if (st != s.basisRowStatus(i)) why = "basisRowStatus(" + std::to_string(i) + ") differs from getBasis()";
    if (st == sut::VS_BASIC) nb++;
    else if (st == sut::VS_ON_UPPER && s.rhs(i) >= inf) why = "row " + std::to_string(i) + " nonbasic ON_UPPER at infinite rhs";
    else if (st == sut::VS_ON_LOWER && s.lhs(i) <= -inf) why = "row " + std::to_string(i) + " nonbasic ON_LOWER at infinite lhs";
    else if (st == sut::VS_FIXED && s.lhs(i) != s.rhs(i)) why = "row " + std::to_string(i) + " FIXED but lhs != rhs";
    else if (st == sut::VS_UNDEFINED) why = "row " + std::to_string(i) + " UNDEFINED";
    else if (st < 0 || st > 5) why = "row status out of range";
  }
  for (int j = 0; j < n && why.empty(); j++) {
    int st = cols[j];
    if (st != s.basisColStatus(j)) why = "basisColStatus(" + std::to_string(j) + ") differs from getBasis()";
    if (st == sut::VS_BASIC) nb++;
    else if (st == sut::VS_ON_UPPER && s.upper(j) >= inf) why = "column " + std::to_string(j) + " nonbasic ON_UPPER at infinite upper";
    else if (st == sut::VS_ON_LOWER && s.lower(j) <= -inf) why = "column " + std::to_string(j) + " nonbasic ON_LOWER at infinite lower";
    else if (st == sut::VS_FIXED && s.lower(j) != s.upper(j)) why = "column " + std::to_string(j) + " FIXED but lower != upper";
    else if (st == sut::VS_UNDEFINED) why = "column " + std::to_string(j) + " UNDEFINED";
    else if (st < 0 || st > 5) why = "column status out of range";
  }
  if (why.empty() && nb != m) why = std::to_string(nb) + " basic variables for " + std::to_string(m) + " rows";
  if (!why.empty()) { viol(basis_prop_, nb != m && why.find("basic variables") != std::string::npos ? "basic_count" : "invalid_status", why, ctx); return; }
  // getBasisInd describes the same set (the call is only made when the count is right; sentinel detects overruns)
  if (known_skip("C04", "basisind", ctx)) return;
  std::vector<int> bind; s.getBasisInd(bind, m + n + 8);
  int written = 0; for (int k = 0; k < (int)bind.size(); k++) if (bind[k] != INT_MIN) written = k + 1;
  if (written > m) { viol(basis_prop_, "basisind_overrun", "getBasisInd wrote " + std::to_string(written) + " entries into an array for " + std::to_string(m) + " rows", ctx); return; }
  std::vector<char> seenR(m, 0), seenC(n, 0);
  for (int k = 0; k < m; k++) {
    int b = bind[k];
    if (b == INT_MIN) { viol(basis_prop_, "basisind_mismatch", "getBasisInd left entry " + std::to_string(k) + " unset", ctx); return; }
    if (b >= 0) { if (b >= n || cols[b] != sut::VS_BASIC || seenC[b]) { viol(basis_prop_, "basisind_mismatch", "getBasisInd entry " + std::to_string(k) + " = column " + std::to_string(b) + " is not a (distinct) basic column", ctx); return; } seenC[b] = 1; }
    else { int r = -1 - b; if (r >= m || rows[r] != sut::VS_BASIC || seenR[r]) { viol(basis_prop_, "basisind_mismatch", "getBasisInd entry " + std::to_string(k) + " = row " + std::to_string(r) + " is not a (distinct) basic row", ctx); return; } seenR[r] = 1; }
  }
  bind.resize(m);
  if (from_solve) {
    std::vector<std::vector<Q>> B, inv;
    LP img = real_image(o.lp);
    if (img.nrows() == m && img.ncols() == n && model::basis_matrix(img, bind, B) && !model::exact_inverse(B, inv))
      viol(basis_prop_, "singular_basis", "basis matrix assembled from the model is exactly singular", ctx);
  }
}

// ------------------------------------------------------------------ C05 inverse / multiply queries
void Executor::check_inverse(Obj& o) {
  auto& s = *o.s;
  int m = s.numRows(), n = s.numCols();
  if (m == 0) return;
  if (n == 0) { count("empty_lp_not_judged"); return; }   // an LP without columns is not judged by any oracle of this harness (see DESIGN.md 16)
  auto ctx = ctx_of(o);
  std::vector<int> rows, cols; s.getBasis(rows, cols);
  int nb = 0; for (int v : rows) nb += v == sut::VS_BASIC; for (int v : cols) nb += v == sut::VS_BASIC;
  if (nb != m) return;   // C04's business
  if (known_skip("C04", "basisind", ctx)) return;
  std::vector<int> bind; s.getBasisInd(bind, m + n + 8); bind.resize(m);
  for (int b : bind) if (b == INT_MIN || b >= n || -1 - b >= m) return;
  LP img = real_image(o.lp);
  if (img.nrows() != m || img.ncols() != n) return;
  std::vector<std::vector<Q>> B, inv;
  if (!model::basis_matrix(img, bind, B) || !model::exact_inverse(B, inv)) return;
  count("inverse_checked");
  // magnitude of the exact inverse decides the admissible residual
  double bmax = 0, imax = 0;
  for (auto& r : B) for (auto& v : r) bmax = std::max(bmax, fabs(v.get_d()));
  for (auto& r : inv) for (auto& v : r) imax = std::max(imax, fabs(v.get_d()));
  double cond = bmax * imax * m;
  if (cond > 1e8) { count("inverse_skipped_illconditioned"); return; }
  double rtol = 1e-6 * (1 + cond);
  for (int unscaleI = 0; unscaleI < 2; unscaleI++) {
    bool unscale = unscaleI == 1;
    if (!unscale && s.peekIsRealLPScaled()) continue;   // with unscale=false the answer refers to the scaled LP, which the user cannot see
    ctx["unscale"] = unscale ? "1" : "0";
    int k = (int)orng_.below(m);
    {  // row k of the inverse
      ctx["api"] = "getBasisInverseRowReal";
      if (!known_skip("C05", "inverse_row", ctx)) {
        std::vector<double> c; std::vector<int> idx;
        if (!s.basisInverseRow(k, c, &idx, unscale)) viol("C05", "inverse_row", "getBasisInverseRowReal returned false on a regular basis", ctx);
        else {
          double worst = 0, scale = 0; for (int i = 0; i < m; i++) { scale = std::max(scale, fabs(inv[k][i].get_d())); worst = std::max(worst, fabs(c[i] - inv[k][i].get_d())); }
          if (opt_.verbose) { fprintf(stderr, "[inverse_row %d unscale=%d] soplex:", k, (int)unscale); for (int i = 0; i < m; i++) fprintf(stderr, " %g", c[i]); fprintf(stderr, " exact:"); for (int i = 0; i < m; i++) fprintf(stderr, " %g", inv[k][i].get_d()); fprintf(stderr, " bind:"); for (int b : bind) fprintf(stderr, " %d", b); fprintf(stderr, "\n"); }
          if (!(worst <= rtol * (1 + scale))) { std::ostringstream d; d << "row " << k << " of the inverse differs from the exact inverse by " << worst << " (scale " << scale << ")"; viol("C05", "inverse_row", d.str(), ctx); }
          else if (!(idx.size() == 1 && idx[0] == -1)) {
            std::vector<char> in(m, 0); bool bad = false; for (int i : idx) { if (i < 0 || i >= m || in[i]) bad = true; else in[i] = 1; }
            for (int i = 0; i < m && !bad; i++) if ((c[i] != 0) != (in[i] != 0)) bad = true;
            if (bad) viol("C05", "inverse_row_indices", "index list does not match the nonzeros of the returned row", ctx);
          }
        }
      }
    }
    {  // column k
      ctx["api"] = "getBasisInverseColReal";
      if (!known_skip("C05", "inverse_col", ctx)) {
        std::vector<double> c; std::vector<int> idx;
        if (!s.basisInverseCol(k, c, &idx, unscale)) viol("C05", "inverse_col", "getBasisInverseColReal returned false on a regular basis", ctx);
        else {
          double worst = 0, scale = 0; for (int i = 0; i < m; i++) { scale = std::max(scale, fabs(inv[i][k].get_d())); worst = std::max(worst, fabs(c[i] - inv[i][k].get_d())); }
          if (!(worst <= rtol * (1 + scale))) { std::ostringstream d; d << "column " << k << " of the inverse differs from the exact inverse by " << worst << " (scale " << scale << ")"; viol("C05", "inverse_col", d.str(), ctx); }
          else if (!(idx.size() == 1 && idx[0] == -1)) {
            std::vector<char> in(m, 0); bool bad = false; for (int i : idx) { if (i < 0 || i >= m || in[i]) bad = true; else in[i] = 1; }
            for (int i = 0; i < m && !bad; i++) if ((c[i] != 0) != (in[i] != 0)) bad = true;
            if (bad) viol("C05", "inverse_col_indices", "index list does not match the nonzeros of the returned column", ctx);
          }
        }
      }
    }
    // random dense vector
    std::vector<double> v(m); for (auto& x : v) x = (double)orng_.range(-5, 5);
    std::vector<Q> vq = toQ(v);
    {  // solve(B v) = v  <=> B^{-1} w for w = B v
      ctx["api"] = "getBasisInverseTimesVecReal";
      if (!known_skip("C05", "inverse_times_vec", ctx)) {
        std::vector<double> w(m, 0.0); for (int i = 0; i < m; i++) { Q a = 0; for (int j = 0; j < m; j++) a += B[i][j] * vq[j]; w[i] = a.get_d(); }
        std::vector<double> sol;
        if (!s.basisInverseTimesVec(w, sol, unscale)) viol("C05", "inverse_times_vec", "getBasisInverseTimesVecReal returned false on a regular basis", ctx);
        else { double worst = 0; for (int i = 0; i < m; i++) worst = std::max(worst, fabs(sol[i] - v[i])); if (!(worst <= rtol * 10)) { std::ostringstream d; d << "solve(B v) differs from v by " << worst; viol("C05", "inverse_times_vec", d.str(), ctx); } }
      }
    }
    {  // multBasis(v) = B v
      ctx["api"] = "multBasis";
      if (!known_skip("C05", "mult_basis", ctx)) {
        std::vector<double> w(v);
        if (!s.multBasis(w, unscale)) viol("C05", "mult_basis", "multBasis returned false on a regular basis", ctx);
        else { double worst = 0, scale = 0; for (int i = 0; i < m; i++) { Q a = 0; for (int j = 0; j < m; j++) a += B[i][j] * vq[j]; scale = std::max(scale, fabs(a.get_d())); worst = std::max(worst, fabs(w[i] - a.get_d())); }
          if (!(worst <= 1e-9 * (1 + scale) * (1 + bmax))) { std::ostringstream d; d << "multBasis(v) differs from B v by " << worst; viol("C05", "mult_basis", d.str(), ctx); } }
      }
    }
    {  // multBasisTranspose(v) = B^T v
      ctx["api"] = "multBasisTranspose";
      if (!known_skip("C05", "mult_basis_transpose", ctx)) {
        std::vector<double> w(v);
        if (!s.multBasisTranspose(w, unscale)) viol("C05", "mult_basis_transpose", "multBasisTranspose returned false on a regular basis", ctx);
        else { double worst = 0, scale = 0; for (int j = 0; j < m; j++) { Q a = 0; for (int i = 0; i < m; i++) a += B[i][j] * vq[i]; scale = std::max(scale, fabs(a.get_d())); worst = std::max(worst, fabs(w[j] - a.get_d())); }
          if (!(worst <= 1e-9 * (1 + scale) * (1 + bmax))) { std::ostringstream d; d << "multBasisTranspose(v) differs from B^T v by " << worst; viol("C05", "mult_basis_transpose", d.str(), ctx); } }
      }
    }
  }
}
}  // namespace sim
