// Narrow facade over soplex::SoPlex. Only sut_*.cpp include soplex.h; everything else sees plain types.
#pragma once
#include <gmpxx.h>
#include <string>
#include <vector>
#include <iosfwd>

namespace sut {
typedef mpq_class Q;

// status codes = SPxSolverBase::Status
enum { ST_ERROR = -15, ST_NO_RATIOTESTER = -14, ST_NO_PRICER = -13, ST_NO_SOLVER = -12, ST_NOT_INIT = -11, ST_ABORT_CYCLING = -8,
       ST_ABORT_TIME = -7, ST_ABORT_ITER = -6, ST_ABORT_VALUE = -5, ST_SINGULAR = -4, ST_NO_PROBLEM = -3, ST_REGULAR = -2,
       ST_RUNNING = -1, ST_UNKNOWN = 0, ST_OPTIMAL = 1, ST_UNBOUNDED = 2, ST_INFEASIBLE = 3, ST_INForUNBD = 4, ST_OPTIMAL_UNSCALED_VIOLATIONS = 5 };
const char* status_name(int st);
// VarStatus
enum { VS_ON_UPPER = 0, VS_ON_LOWER = 1, VS_FIXED = 2, VS_ZERO = 3, VS_BASIC = 4, VS_UNDEFINED = 5 };
// basis status (SPxBasisBase::SPxStatus)
enum { BS_NO_PROBLEM = -2, BS_SINGULAR = -1, BS_REGULAR = 0, BS_DUAL = 1, BS_PRIMAL = 2, BS_OPTIMAL = 3, BS_UNBOUNDED = 4, BS_INFEASIBLE = 5 };

struct SVec { std::vector<int> idx; std::vector<double> val; };
struct SVecQ { std::vector<int> idx; std::vector<Q> val; };

struct ParamInfo {
  int nbool, nint, nreal;
  std::vector<std::string> bname, iname, rname;
  std::vector<bool> bdef; std::vector<int> idef, ilo, iup; std::vector<double> rdef, rlo, rup;
};
const ParamInfo& param_info();

struct Exc { std::string what; };   // an exception escaped from SoPlex (type name + message)

class Sut {
 public:
  Sut();
  Sut(const Sut& o);                 // copy constructor of SoPlex
  ~Sut();
  void assign(const Sut& o);         // operator=
  void* raw() { return p_; }

  // --- output: all SPxOut streams go to sink (nullptr = discard); verbosity via int param
  void setLogSink(std::ostream* sink);

  // --- parameters (enum values are SoPlex's)
  bool setBool(int p, bool v); bool setInt(int p, int v); bool setReal(int p, double v);
  bool getBool(int p) const; int getInt(int p) const; double getReal(int p) const;
  void setSeed(unsigned s); unsigned seed() const;
  bool parseSettings(const std::string& s);
  bool saveSettings(const std::string& file, bool onlyChanged); bool loadSettings(const std::string& file);
  void resetSettings();
  bool copySettingsFrom(const Sut& o);  // setSettings(o.settings())
  const void* tolerancesPtr() const;

  // --- real LP
  int numRows() const; int numCols() const; int numNonzeros() const;
  double coef(int i, int j) const; SVec rowVec(int i) const; SVec colVec(int j) const;
  double lhs(int i) const; double rhs(int i) const; double lower(int j) const; double upper(int j) const;
  double obj(int j) const; double maxObj(int j) const; int rowType(int i) const;
  std::vector<double> lhsVec() const, rhsVec() const, lowerVec() const, upperVec() const, objVec() const;
  void addRow(double lhs, const SVec& v, double rhs); void addCol(double obj, double lo, const SVec& v, double up);
  void addRows(const std::vector<double>& lhs, const std::vector<SVec>& v, const std::vector<double>& rhs);
  void addCols(const std::vector<double>& obj, const std::vector<double>& lo, const std::vector<SVec>& v, const std::vector<double>& up);
  void changeRow(int i, double lhs, const SVec& v, double rhs); void changeCol(int j, double obj, double lo, const SVec& v, double up);
  void changeLhs(int i, double v); void changeRhs(int i, double v); void changeRange(int i, double l, double r);
  void changeLhsVec(const std::vector<double>& v); void changeRhsVec(const std::vector<double>& v);
  void changeRangeVec(const std::vector<double>& l, const std::vector<double>& r);
  void changeLower(int j, double v); void changeUpper(int j, double v); void changeBounds(int j, double l, double u);
  void changeLowerVec(const std::vector<double>& v); void changeUpperVec(const std::vector<double>& v);
  void changeBoundsVec(const std::vector<double>& l, const std::vector<double>& u);
  void changeObj(int j, double v); void changeObjVec(const std::vector<double>& v);
  void changeElement(int i, int j, double v);
  void removeRow(int i); void removeCol(int j);
  void removeRowsPerm(std::vector<int>& perm); void removeColsPerm(std::vector<int>& perm);
  void removeRowsIdx(std::vector<int> idx, std::vector<int>* perm); void removeColsIdx(std::vector<int> idx, std::vector<int>* perm);
  void removeRowRange(int a, int b, std::vector<int>* perm); void removeColRange(int a, int b, std::vector<int>* perm);
  void clearLPReal(); void syncLPReal();

  // --- rational LP
  int numRowsRational() const; int numColsRational() const; int numNonzerosRational() const;
  SVecQ rowVecQ(int i) const; SVecQ colVecQ(int j) const;
  // bounds as (inf, value): inf=-1/0/+1 relative to the rational infinity
  void lhsQ(int i, int& inf, Q& v) const; void rhsQ(int i, int& inf, Q& v) const;
  void lowerQ(int j, int& inf, Q& v) const; void upperQ(int j, int& inf, Q& v) const;
  Q objQ(int j) const; int rowTypeQ(int i) const;
  Q rationalInfinity() const;
  void addRowQ(const Q& lhs, const SVecQ& v, const Q& rhs, int form);  // form 0: LPRowRational, 1: mpq_t arrays
  void addColQ(const Q& obj, const Q& lo, const SVecQ& v, const Q& up, int form);
  void addRowsQ(const std::vector<Q>& lhs, const std::vector<SVecQ>& v, const std::vector<Q>& rhs, int form);
  void addColsQ(const std::vector<Q>& obj, const std::vector<Q>& lo, const std::vector<SVecQ>& v, const std::vector<Q>& up, int form);
  void changeRowQ(int i, const Q& lhs, const SVecQ& v, const Q& rhs); void changeColQ(int j, const Q& obj, const Q& lo, const SVecQ& v, const Q& up);
  void changeLhsQ(int i, const Q& v, int form); void changeRhsQ(int i, const Q& v, int form); void changeRangeQ(int i, const Q& l, const Q& r, int form);
  void changeLhsVecQ(const std::vector<Q>& v); void changeRhsVecQ(const std::vector<Q>& v, int form); void changeRangeVecQ(const std::vector<Q>& l, const std::vector<Q>& r);
  void changeLowerQ(int j, const Q& v, int form); void changeUpperQ(int j, const Q& v, int form); void changeBoundsQ(int j, const Q& l, const Q& u, int form);
  void changeLowerVecQ(const std::vector<Q>& v); void changeUpperVecQ(const std::vector<Q>& v); void changeBoundsVecQ(const std::vector<Q>& l, const std::vector<Q>& u);
  void changeObjQ(int j, const Q& v, int form); void changeObjVecQ(const std::vector<Q>& v);
  void changeElementQ(int i, int j, const Q& v, int form);
  void removeRowQ(int i); void removeColQ(int j);
  void removeRowsPermQ(std::vector<int>& perm); void removeColsPermQ(std::vector<int>& perm);
  void removeRowsIdxQ(std::vector<int> idx, std::vector<int>* perm); void removeColsIdxQ(std::vector<int> idx, std::vector<int>* perm);
  void removeRowRangeQ(int a, int b, std::vector<int>* perm); void removeColRangeQ(int a, int b, std::vector<int>* perm);
  void clearLPRational(); void syncLPRational();
  bool areLPsInSync(bool vecVals, bool matVals) const;

  // --- solving
  int optimize(volatile bool* interrupt);
  int status() const; int numIterations() const; int numRefinements() const; int numPrecisionBoosts() const; double solveTime() const;
  bool hasSol() const, hasBasis() const, isPrimalFeasible() const, isDualFeasible() const, hasPrimalRay() const, hasDualFarkas() const;
  double objValue();
  bool getPrimal(std::vector<double>& v), getSlacks(std::vector<double>& v), getDual(std::vector<double>& v), getRedCost(std::vector<double>& v);
  bool getPrimalRay(std::vector<double>& v), getDualFarkas(std::vector<double>& v);
  Q objValueQ();
  bool getPrimalQ(std::vector<Q>& v), getSlacksQ(std::vector<Q>& v), getDualQ(std::vector<Q>& v), getRedCostQ(std::vector<Q>& v);
  bool getPrimalRayQ(std::vector<Q>& v), getDualFarkasQ(std::vector<Q>& v);
  bool getBoundViolation(double& mx, double& sum), getRowViolation(double& mx, double& sum);

  // --- basis
  int basisStatus() const; int basisRowStatus(int i) const; int basisColStatus(int j) const;
  void getBasis(std::vector<int>& rows, std::vector<int>& cols) const;
  void setBasis(const std::vector<int>& rows, const std::vector<int>& cols);
  void clearBasis();
  void getBasisInd(std::vector<int>& bind, int capacity) const;   // capacity = array size handed to SoPlex (guarded)
  bool basisInverseRow(int r, std::vector<double>& coef, std::vector<int>* inds, bool unscale);
  bool basisInverseCol(int c, std::vector<double>& coef, std::vector<int>* inds, bool unscale);
  bool basisInverseTimesVec(const std::vector<double>& rhs, std::vector<double>& sol, bool unscale);
  bool multBasis(std::vector<double>& vec, bool unscale); bool multBasisTranspose(std::vector<double>& vec, bool unscale);
  bool computeBasisInverseRational();
  bool getBasisIndRational(std::vector<int>& bind);
  bool basisInverseRowQ(int r, std::vector<Q>& dense, std::vector<int>& idx);
  bool basisInverseColQ(int c, std::vector<Q>& dense, std::vector<int>& idx);
  bool basisInverseTimesVecQ(const SVecQ& rhs, std::vector<Q>& dense, std::vector<int>& idx);

  // --- files (names on the simulated disk = a scratch directory)
  bool readFile(const std::string& f, bool withNames); bool writeFile(const std::string& f, bool withNames, bool unscale);
  bool writeFileRational(const std::string& f, bool withNames);
  bool writeDualFile(const std::string& f);
  bool readBasisFile(const std::string& f, bool withNames); bool writeBasisFile(const std::string& f, bool withNames, bool cpxFormat);
  void writeStateReal(const std::string& base, bool withNames, bool cpxFormat); void writeStateRational(const std::string& base, bool withNames, bool cpxFormat);
  int numRowNames() const; int numColNames() const;   // name sets kept by the facade from the last successful read
  void setDefaultNames();                              // facade name sets := R<i>/C<j> matching the current dimensions

  // --- peek (private state, via the guarded friend)
  bool peekIsRealLPLoaded() const; bool peekIsRealLPScaled() const; bool peekHasBasisFlag() const;
  int peekRowType(int i) const; int peekColType(int j) const; int peekRowTypesSize() const; int peekColTypesSize() const;
  int peekRationalLUStatus() const;
  bool peekSolverIsScaled() const;
  int peekRep() const;   // -1 ROW, +1 COLUMN (SPxSolverBase::Representation)
  int peekOptimizeCalls() const; int peekUnscaleCalls() const;

 private:
  void* p_;       // soplex::SoPlex*
  void* names_;   // facade-owned NameSets
};

// --- stream-level readers on bare LP objects (no SoPlex object): returns 1 ok, 0 reported failure; throws Exc
struct BareLP { int rows = 0, cols = 0, nnz = 0; bool consistent = true; std::string why; };
int stream_read_lp(std::istream& in, bool rational, BareLP& out);
// --- conversions by SoPlex's own code (used where an oracle has to follow SoPlex's rounding)
double soplex_rational_to_double(const Q& q);

void set_thread_infinity_default();
// ThreadSanitizer builds: a task thread ignores the memory accesses of harness code and switches detection on only
// while it is inside a facade call (so that reports are about the library, never about the serialised harness)
void tsan_task_begin();
void tsan_task_end();
}  // namespace sut
