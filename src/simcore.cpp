#include "simcore.h"
#include <sys/times.h>
#include <sys/time.h>
#include <unistd.h>
#include <sched.h>
#include <cstring>
#include <ios>
#include <algorithm>

extern "C" {
clock_t __real_times(struct tms*);
int __real_gettimeofday(struct timeval*, void*);
// defined in the repo's spxdefines.cpp under SOPLEX_VERIF_HOOKS
extern void (*soplex_verif_point_fn)(int site);
extern int (*soplex_verif_buggify_fn)(int site);
}

namespace sim {

static thread_local TaskCtx* g_cur = nullptr;
static Sched* volatile g_sched = nullptr;

TaskCtx* current() { return g_cur; }
void set_current(TaskCtx* t) { g_cur = t; }
Sched* scheduler() { return g_sched; }
void set_scheduler(Sched* s) { g_sched = s; }

double virtual_seconds(const TaskCtx& t) { return t.now_ns * 1e-9; }

void op_begin(TaskCtx& t) {
  t.reads_in_op = 0; t.points_in_op = 0; t.logs_in_op = 0; t.refine_in_op = 0;
  t.jump_at_read = -1; t.jump_ns = 0; t.back_at_read = -1; t.back_ns = 0;
  t.intr_at_point = t.intr_at_log = t.intr_at_read = -1; t.intr_lower_after = -1; t.intr_raised_at_point = -1;
  t.interrupt_flag = false; t.points_after_raise = 0; t.points_after_jump = 0; t.jump_done = false;
  t.bug_fired_in_op = 0;
}

static inline void raise_intr(TaskCtx& t) {
  if (!t.interrupt_flag) { t.interrupt_flag = true; t.fired_intr++; t.intr_raised_at_point = (int64_t)t.points_in_op; }
}

void event(int site) {
  TaskCtx* t = g_cur;
  if (!t) return;
  t->nevents++;
  if (site >= 0 && site < SITE_MAX) t->site_count[site]++;
  t->digest.u64(((uint64_t)site << 56) ^ t->nevents);
  if (t->nevents > t->event_cap && !t->cap_hit) {
    // a loop that keeps yielding: stop it the simulated way (interrupt + clock far in the future)
    t->cap_hit = true; t->interrupt_flag = true; t->now_ns += (int64_t)4e18 / 4;
  }
  switch (site) {
    case SITE_ENTER_PIVOT: case SITE_LEAVE_PIVOT:
      if (t->interrupt_flag) t->points_after_raise++;
      if (t->jump_done) t->points_after_jump++;
      if (t->intr_at_point >= 0 && (int64_t)t->points_in_op == t->intr_at_point) raise_intr(*t);
      if (t->interrupt_flag && t->intr_lower_after >= 0 && t->intr_raised_at_point >= 0 &&
          (int64_t)t->points_in_op >= t->intr_raised_at_point + t->intr_lower_after && !t->cap_hit)
        t->interrupt_flag = false;
      t->points_in_op++;
      break;
    case SITE_REFINE_ROUND: t->refine_in_op++; break;
    case SITE_LOGLINE:
      if (t->intr_at_log >= 0 && (int64_t)t->logs_in_op == t->intr_at_log) raise_intr(*t);
      t->logs_in_op++;
      break;
    default: break;
  }
  Sched* s = g_sched;
  if (s && s->ntasks > 1) sched_yield_point(t->id, site == SITE_OPBOUNDARY);
}

static void advance_clock(TaskCtx& t, bool wall) {
  t.clock_reads++;
  int64_t k = (int64_t)t.reads_in_op++;
  int64_t d = 0;
  switch (t.profile) {
    case CLK_ZERO: case CLK_FROZEN: d = 0; break;
    case CLK_SUBTICK: d = 1000 + (int64_t)t.clock_rng.below(2000000); break;          // 1us..2ms
    case CLK_TICK: d = 10000000; break;                                                // one tick
    default: {
      uint64_t r = t.clock_rng.below(100);
      if (r < 50) d = (int64_t)t.clock_rng.below(500000);
      else if (r < 85) d = 1000000 + (int64_t)t.clock_rng.below(20000000);
      else if (r < 97) d = 10000000 * (1 + (int64_t)t.clock_rng.below(30));
      else d = 1000000000ll * (int64_t)t.clock_rng.below(3);
    }
  }
  t.now_ns += d;
  if (t.jump_at_read >= 0 && k == t.jump_at_read) { t.now_ns += t.jump_ns; t.fired_jump++; t.jump_done = true; }
  if (wall && t.back_at_read >= 0 && k == t.back_at_read) { t.gtod_skew_ns -= t.back_ns; t.fired_back++; }
  if (t.intr_at_read >= 0 && k == t.intr_at_read) raise_intr(t);
}

// ---------------- log buffer
int LogBuf::overflow(int c) {
  if (c != EOF) { if (keep) text.push_back((char)c); if (c == '\n') event(SITE_LOGLINE); }
  return c;
}
std::streamsize LogBuf::xsputn(const char* s, std::streamsize n) {
  for (std::streamsize i = 0; i < n; i++) { if (keep) text.push_back(s[i]); if (s[i] == '\n') event(SITE_LOGLINE); }
  return n;
}

ChunkBuf::int_type ChunkBuf::underflow() {
  underflows++;
  event(SITE_STREAM_UNDERFLOW);
  if (underflows > 5000000) return traits_type::eof();   // a reader that keeps asking at EOF is cut off by the event cap, not here
  if (pos_ >= data_.size()) return traits_type::eof();
  if (failat_ >= 0 && (long)pos_ >= failat_) throw std::ios_base::failure("simulated read error");
  size_t n = chunk_ <= 1 ? 1 : 1 + (size_t)rng_.below(chunk_);
  if (failat_ >= 0 && pos_ + n > (size_t)failat_) n = std::max<size_t>(1, (size_t)failat_ - pos_);
  n = std::min(n, data_.size() - pos_);
  cur_ = data_.substr(pos_, n); pos_ += n;
  setg(&cur_[0], &cur_[0], &cur_[0] + cur_.size());
  return traits_type::to_int_type(cur_[0]);
}

// ---------------- hooks
static void point_hook(int site) { event(site); }
static int buggify_hook(int site) {
  TaskCtx* t = g_cur;
  if (!t || site < 10 || site >= 18) return 0;
  int b = site - 10;
  if (!(t->bug_mask & (1u << b))) return 0;
  if (t->bug_fired_in_op >= t->bug_budget) return 0;
  if (!t->bug_rng.chance(t->bug_p)) return 0;
  t->bug_fired[b]++; t->bug_fired_in_op++;
  event(site);
  return 1;
}
void install_hooks() { soplex_verif_point_fn = point_hook; soplex_verif_buggify_fn = buggify_hook; }

// ---------------- scheduler
SIM_NOTSAN static void spin_until_turn(Sched* s, int id) {
  unsigned n = 0;
  while (s->turn != id) { if (++n > 64) sched_yield(); }
}
SIM_NOTSAN void sched_task_start(int id) {
  Sched* s = g_sched; if (!s) return;
  spin_until_turn(s, id);
}
// private generator for the scheduler: same algorithm as Rng, but with no call into instrumented code
SIM_NOTSAN static inline uint64_t srotl(uint64_t x, int k) { return (x << k) | (x >> (64 - k)); }
SIM_NOTSAN static uint64_t snext(Sched* sc) {
  uint64_t* s = sc->rng.s;
  uint64_t r = srotl(s[1] * 5, 7) * 9, t = s[1] << 17;
  s[2] ^= s[0]; s[3] ^= s[1]; s[1] ^= s[2]; s[0] ^= s[3]; s[2] ^= t; s[3] = srotl(s[3], 45);
  return r;
}
SIM_NOTSAN static bool schance(Sched* sc, double p) { return (snext(sc) >> 11) * (1.0 / 9007199254740992.0) < p; }
SIM_NOTSAN static void strace(Sched* sc, int v) { if (sc->ntrace < Sched::TRACE_MAX) sc->trace[sc->ntrace++] = v; }
SIM_NOTSAN static int pick_next(Sched* s, int me, bool me_alive) {
  int alive = s->alive_mask;
  if (!me_alive) alive &= ~(1 << me);
  if (!alive) return -1;
  int choice;
  if (s->replay && s->replay_pos < s->replay_len) {
    choice = s->replay[s->replay_pos++];
    if (choice < 0) choice = -1 - choice;
    if (choice < 0 || choice >= s->ntasks || !(alive & (1 << choice))) {
      // replayed plan was shrunk: fall back to first alive task at or after 'choice'
      choice = -1;
      for (int i = 0; i < s->ntasks; i++) { int c = (me + i) % s->ntasks; if (alive & (1 << c)) { choice = c; break; } }
    }
  } else if (me_alive && schance(s, s->stickiness)) {
    choice = me;
  } else {
    int cnt = __builtin_popcount(alive);
    int k = (int)(snext(s) % (uint64_t)cnt);
    choice = -1;
    for (int i = 0; i < s->ntasks; i++) if (alive & (1 << i)) { if (k-- == 0) { choice = i; break; } }
  }
  strace(s, choice);
  return choice;
}
SIM_NOTSAN void sched_task_exit(int id) {
  Sched* s = g_sched; if (!s) return;
  s->alive_mask = s->alive_mask & ~(1 << id);
  int nxt = pick_next(s, id, false);
  s->turn = nxt;   // -1 when nobody is left
}
SIM_NOTSAN void sched_yield_point(int id, bool op_boundary) {
  Sched* s = g_sched; if (!s) return;
  if (s->only_op_boundaries && !op_boundary) return;
  int nxt = pick_next(s, id, true);
  if (nxt != id && nxt >= 0) { s->switches++; s->turn = nxt; spin_until_turn(s, id); }
}

SIM_NOTSAN void sched_force_switch(int id) {
  Sched* s = g_sched; if (!s) return;
  int alive = s->alive_mask & ~(1 << id);
  if (!alive) return;
  int cnt = __builtin_popcount(alive);
  int choice = -1;
  if (s->replay && s->replay_pos < s->replay_len) { int c = s->replay[s->replay_pos++]; if (c < 0) c = -1 - c; if (c >= 0 && c < s->ntasks && (alive & (1 << c))) choice = c; }
  if (choice < 0) { int k = (int)(snext(s) % (uint64_t)cnt); for (int i = 0; i < s->ntasks; i++) if (alive & (1 << i)) { if (k-- == 0) { choice = i; break; } } }
  strace(s, -1 - choice);
  s->switches++; s->turn = choice; spin_until_turn(s, id);
}
}  // namespace sim

// ---------------- link-time clock wrappers (-Wl,--wrap=times,--wrap=gettimeofday)
extern "C" clock_t __wrap_times(struct tms* buf) {
  sim::TaskCtx* t = sim::current();
  if (!t) return __real_times(buf);
  sim::advance_clock(*t, false);
  static const long tck = sysconf(_SC_CLK_TCK);
  clock_t ticks = (clock_t)(t->now_ns / (1000000000ll / tck));
  if (buf) { buf->tms_utime = ticks; buf->tms_stime = 0; buf->tms_cutime = 0; buf->tms_cstime = 0; }
  sim::event(sim::SITE_CLOCK_TIMES);
  return ticks + 1000;
}
extern "C" int __wrap_gettimeofday(struct timeval* tv, void* tz) {
  sim::TaskCtx* t = sim::current();
  if (!t) return __real_gettimeofday(tv, tz);
  sim::advance_clock(*t, true);
  int64_t us = 1700000000ll * 1000000ll + (t->now_ns + t->gtod_skew_ns) / 1000;
  if (tv) { tv->tv_sec = us / 1000000; tv->tv_usec = us % 1000000; }
  sim::event(sim::SITE_CLOCK_GTOD);
  return 0;
}
