#include "plan.h"
#include <sstream>
namespace sim {
std::string hex_encode(const std::string& s) { static const char* h = "0123456789abcdef"; std::string o; o.reserve(s.size() * 2); for (unsigned char c : s) { o.push_back(h[c >> 4]); o.push_back(h[c & 15]); } return o; }
std::string hex_decode(const std::string& s) { std::string o; auto v = [](char c) { return c <= '9' ? c - '0' : c - 'a' + 10; }; for (size_t i = 0; i + 1 < s.size(); i += 2) o.push_back((char)(v(s[i]) * 16 + v(s[i + 1]))); return o; }
std::string Op::text() const {
  std::ostringstream o; o << "op " << task << " " << (obj.empty() ? "-" : obj) << " " << name;
  for (auto& p : kv) o << " " << p.first << "=" << p.second;
  return o.str();
}
std::string Plan::text() const {
  std::ostringstream o;
  o << "seed " << seed << "\nengine " << engine << "\n";
  for (auto& c : cfg) o << "cfg " << c.first << "=" << c.second << "\n";
  for (size_t i = 0; i < lps.size(); i++) o << "instance " << i << "\n" << lps[i].text();
  for (size_t i = 0; i < blobs.size(); i++) o << "blob " << i << " " << hex_encode(blobs[i]) << "\n";
  for (auto& op : ops) o << op.text() << "\n";
  if (!sched.empty()) { o << "sched"; for (int s : sched) o << " " << s; o << "\n"; }
  o << "end\n";
  return o.str();
}
bool Plan::parse(const std::string& txt, Plan& out, std::string* err) {
  out = Plan();
  std::istringstream in(txt); std::string line;
  while (std::getline(in, line)) {
    if (line.empty() || line[0] == '#') continue;
    std::istringstream ls(line); std::string k; ls >> k;
    if (k == "seed") ls >> out.seed;
    else if (k == "engine") ls >> out.engine;
    else if (k == "cfg") { std::string kv; ls >> kv; size_t p = kv.find('='); if (p == std::string::npos) { if (err) *err = "bad cfg"; return false; } out.cfg[kv.substr(0, p)] = kv.substr(p + 1); }
    else if (k == "instance") {
      std::string body, l2; bool done = false;
      while (std::getline(in, l2)) { body += l2 + "\n"; if (l2 == "endlp") { done = true; break; } }
      model::LP lp; if (!done || !model::LP::parse(body, lp)) { if (err) *err = "bad instance"; return false; }
      out.lps.push_back(lp);
    }
    else if (k == "blob") { int i; std::string h; ls >> i >> h; out.blobs.push_back(hex_decode(h)); }
    else if (k == "op") {
      Op op; ls >> op.task >> op.obj >> op.name; if (op.obj == "-") op.obj = "";
      std::string kv; while (ls >> kv) { size_t p = kv.find('='); if (p == std::string::npos) op.kv.push_back({kv, ""}); else op.kv.push_back({kv.substr(0, p), kv.substr(p + 1)}); }
      out.ops.push_back(op);
    }
    else if (k == "sched") { int s; while (ls >> s) out.sched.push_back(s); }
    else if (k == "end") return true;
  }
  if (err) *err = "missing end";
  return false;
}
}  // namespace sim
