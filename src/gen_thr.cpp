// thrsim: several caller threads, each with its own solver objects; copies handed from one task to another.
#include "gen.h"
#include "simcore.h"
namespace sim {
static std::string I(long v) { return std::to_string(v); }
static Op mk(int task, const std::string& obj, const std::string& name) { Op o; o.task = task; o.obj = obj; o.name = name; return o; }

Plan gen_thr(uint64_t seed, const GenOpts& g) {
  Plan p; p.seed = seed; p.engine = "thr";
  Rng rng(mix(seed, 0x7412));
  bool thorough = g.tier == "thorough";
  int T = thorough ? rng.range(2, 8) : rng.range(2, 4);
  p.cfg["ntasks"] = I(T);
  p.cfg["sticky"] = rng.pick({"0.0", "0.3", "0.6", "0.9", "0.97"});
  p.cfg["clock"] = I(rng.pick({(int)CLK_MIXED, (int)CLK_SUBTICK, (int)CLK_ZERO}));
  bool twins = rng.chance(0.35);          // two tasks run the same plan on the same LP: digests must agree (C17 determinism)
  int copyFrom = rng.chance(0.7) ? rng.range(0, T - 2) : -1;   // task whose object is copied and handed to a later task
  int copyTo = copyFrom >= 0 ? rng.range(copyFrom + 1, T - 1) : -1;
  std::vector<Op> twinOps;
  for (int t = 0; t < T; t++) {
    std::string A = "T" + I(t);
    bool rational = rng.chance(0.15);
    model::GenCfg gc; gc.klass = rng.pick({0, 1, 1, 2, 3}); gc.maxRows = rational ? rng.range(2, 5) : rng.range(2, 8); gc.maxCols = rational ? rng.range(2, 5) : rng.range(2, 8);
    gc.fractions = rational; gc.dyadicScale = !rational && rng.chance(0.2);
    Rng lr = rng.fork(100 + t);
    int lpi = (int)p.lps.size();
    if (twins && t == 1) lpi = 0; else p.lps.push_back(model::generate(lr, gc));
    std::vector<Op> ops;
    ops.push_back(mk(t, A, "new"));
    Op sw = swarm_params(rng, A, rational, true);
    sw.task = t;
    if (rng.chance(0.25)) sw.set("real:infty", rng.pick({"1e100", "1e30", "1e20"}));
    if (rng.chance(0.3)) sw.set("real:feastol", rational ? "0" : rng.pick({"1e-6", "1e-7", "1e-9"}));
    if (rational && rng.chance(0.5)) sw.set("bool:precision_boosting", I(rng.range(0, 1)));
    ops.push_back(sw);
    Op ld = mk(t, A, "load"); ld.set("lp", I(lpi)); ld.set("via", rational ? "rational" : "real"); ops.push_back(ld);
    int nsolve = rng.range(1, 3);
    for (int k = 0; k < nsolve; k++) {
      Op o = mk(t, A, "optimize");
      if (rng.chance(0.3)) { o.set("stop", "iter"); o.seti("k", rng.range(0, 6)); }
      ops.push_back(o);
      if (o.has("stop")) { ops.push_back(mk(t, A, "lift")); ops.push_back(mk(t, A, "optimize")); }
      if (t == copyFrom && k == 0) {
        Op c = mk(t, A, "copy"); c.set("to", "C"); c.set("how", rng.chance(0.5) ? "ctor" : "assign"); c.set("handover", "1"); ops.push_back(c);
        // the source keeps working: parameter changes, re-solves, destruction - none of it may reach the copy
        if (rng.chance(0.6)) { Op s2 = mk(t, A, "set"); s2.set(rng.pick({"real:feastol", "real:opttol", "real:epsilon_zero"}), rng.pick({"1e-3", "1e-9", "1e-12"})); ops.push_back(s2); }
      }
      if (rng.chance(0.3)) { Op c = mk(t, A, "clearbasis"); ops.push_back(c); ops.push_back(mk(t, A, "optimize")); }
      if (rng.chance(0.3)) { Op q = mk(t, A, "query"); q.set("what", "basis"); ops.push_back(q); }
    }
    if (rng.chance(0.8)) ops.push_back(mk(t, A, "destroy"));
    if (t == copyTo) {
      // this task also drives the copy it was handed
      std::vector<Op> cops;
      if (rng.chance(0.5)) { Op s2 = mk(t, "C", "set"); s2.set(rng.pick({"real:feastol", "real:opttol", "int:scaler", "int:pricer"}), rng.pick({"1e-4", "1e-8", "1", "3"})); if (s2.kv[0].first.compare(0, 4, "int:") == 0) s2.kv[0].second = I(rng.range(0, 5)); cops.push_back(s2); }
      if (rng.chance(0.5)) cops.push_back(mk(t, "C", "clearbasis"));
      cops.push_back(mk(t, "C", "optimize"));
      if (rng.chance(0.5)) { Op q = mk(t, "C", "query"); q.set("what", "basis"); cops.push_back(q); }
      if (rng.chance(0.7)) cops.push_back(mk(t, "C", "destroy"));
      size_t at = rng.below(ops.size() + 1); if (at < 1) at = 1;
      ops.insert(ops.begin() + std::min(at, ops.size()), cops.begin(), cops.end());
    }
    if (twins && t == 0) twinOps = ops;
    if (twins && t == 1 && copyFrom != 0 && copyTo != 1 && copyTo != 0) {
      ops = twinOps; for (auto& o : ops) { o.task = 1; if (o.obj == "T0") o.obj = "T1"; }
      p.cfg["twins"] = "1";
    }
    for (auto& o : ops) p.ops.push_back(o);
  }
  // interleave the per-task op lists in the file (execution order is decided by the scheduler, not by file order)
  return p;
}
}  // namespace sim
