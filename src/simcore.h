// Simulator core: virtual clock (link-time wrap of times/gettimeofday), yield points, interrupt and
// clock faults, buggify coins, event digest, and a baton scheduler over real threads.
// No SoPlex headers here.
#pragma once
#include <cstdint>
#include <string>
#include <vector>
#include <streambuf>
#include "prng.h"

#define SIM_NOTSAN __attribute__((no_sanitize("thread")))

namespace sim {

enum Site {
  SITE_ENTER_PIVOT = 1, SITE_LEAVE_PIVOT = 2, SITE_REFINE_ROUND = 3,
  SITE_CLOCK_TIMES = 4, SITE_CLOCK_GTOD = 5, SITE_LOGLINE = 6, SITE_OPBOUNDARY = 7,
  SITE_STREAM_UNDERFLOW = 8, SITE_STREAM_OVERFLOW = 9,
  BUG_VERIFY_FALLBACK = 10, BUG_RATREC_FAIL = 11, BUG_NO_RESCALE = 12,
  SITE_MAX = 16
};

enum ClockProfile { CLK_ZERO = 0, CLK_SUBTICK = 1, CLK_TICK = 2, CLK_MIXED = 3, CLK_FROZEN = 4 };

struct TaskCtx {
  int id = 0;
  // ---- virtual clock
  int64_t now_ns = 0;
  int profile = CLK_MIXED;
  Rng clock_rng{1};
  uint64_t clock_reads = 0;       // total
  uint64_t reads_in_op = 0;       // since op_begin
  int64_t jump_at_read = -1;      // fault: at this read (in op) the clock jumps forward by jump_ns
  int64_t jump_ns = 0;
  int64_t back_at_read = -1;      // fault: wall clock steps backwards by back_ns at this read (gettimeofday only)
  int64_t back_ns = 0;
  int64_t gtod_skew_ns = 0;
  // ---- interrupt
  volatile bool interrupt_flag = false;
  int64_t intr_at_point = -1;     // raise at this pivot point (in op)
  int64_t intr_at_log = -1;       // raise at this log line (in op)
  int64_t intr_at_read = -1;      // raise at this clock read (in op)
  int64_t intr_lower_after = -1;  // lower again after this many further points (transient interrupt); -1 = stays up
  int64_t intr_raised_at_point = -1;
  uint64_t points_in_op = 0, logs_in_op = 0, refine_in_op = 0;
  uint64_t points_after_raise = 0;   // pivots executed after the flag went up (bounded-liveness statistic)
  uint64_t points_after_jump = 0;    // pivots executed after the clock passed the limit for good
  bool jump_done = false;
  // ---- buggify
  uint32_t bug_mask = 0;          // bit per site-10
  double bug_p = 0.0;
  int bug_budget = 0;             // max number of fired coins per op
  Rng bug_rng{2};
  uint64_t bug_fired[8] = {0, 0, 0, 0, 0, 0, 0, 0};
  int bug_fired_in_op = 0;
  // ---- event log
  Digest digest;
  uint64_t nevents = 0;
  uint64_t event_cap = 2000000;
  bool cap_hit = false;
  uint64_t site_count[SITE_MAX] = {0};
  // fault-fired counters
  uint64_t fired_jump = 0, fired_intr = 0, fired_back = 0;
};

// current task of this thread (nullptr = simulator inactive: real clock, no hooks)
TaskCtx* current();
void set_current(TaskCtx*);

void install_hooks();             // point the repo's hook function pointers at the simulator

void op_begin(TaskCtx&);          // reset per-op counters and disarm faults
void event(int site);             // a yield: log + faults + scheduling
double virtual_seconds(const TaskCtx&);

// ---- log line counting streambuf (attached to SPxOut streams)
class LogBuf : public std::streambuf {
 public:
  bool keep = false;
  std::string text;
 protected:
  int overflow(int c) override;
  std::streamsize xsputn(const char* s, std::streamsize n) override;
};

// ---- simulated stream: delivers the bytes in chunks (every refill is an event), optional error at a byte offset
class ChunkBuf : public std::streambuf {
 public:
  ChunkBuf(const std::string& data, size_t chunk, uint64_t seed, long failat) : data_(data), chunk_(chunk), rng_(seed), failat_(failat) {}
  uint64_t underflows = 0;
 protected:
  int_type underflow() override;
 private:
  std::string data_; size_t pos_ = 0, chunk_; Rng rng_; long failat_; std::string cur_;
};

// ---- baton scheduler over real threads (one runs at a time; hand-over invisible to TSan)
struct Sched {
  int ntasks = 0;
  Rng rng{3};
  double stickiness = 0.5;
  volatile int turn = -1;          // task id allowed to run; -1 none
  volatile int alive_mask = 0;
  uint64_t switches = 0;
  // chosen task at each scheduling decision (for replay files); plain arrays: everything the tasks share is touched only
  // inside functions that ThreadSanitizer does not instrument, so no container code may be called from there
  static const int TRACE_MAX = 1 << 16;
  int trace[TRACE_MAX];
  int ntrace = 0;
  const int* replay = nullptr;
  size_t replay_len = 0, replay_pos = 0;
  bool only_op_boundaries = false;
};
Sched* scheduler();
void set_scheduler(Sched*);
void sched_task_start(int id);     // block until it is this task's turn
void sched_task_exit(int id);      // give the baton away for good
void sched_yield_point(int id, bool op_boundary);  // maybe switch
void sched_force_switch(int id);                    // hand the baton to some other live task (used while waiting for an object)

}  // namespace sim
