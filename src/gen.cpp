#include "gen.h"
namespace sim {
Plan generate_plan(const std::string& engine, uint64_t seed, const GenOpts& g) {
  if (engine == "stop") return gen_stop(seed, g);
  if (engine == "hist") return gen_hist(seed, g);
  if (engine == "file") return gen_file(seed, g);
  if (engine == "thr") return gen_thr(seed, g);
  if (engine == "exact") return gen_exact(seed, g);
  return gen_stop(seed, g);
}
}  // namespace sim
