#include "cert.h"
#include <sstream>
namespace model {
static std::string S(const char* what, int idx) { std::ostringstream o; o << what << "[" << idx << "]"; return o.str(); }
static void setwhy(std::string* why, const std::string& s) { if (why) *why = s; }

Q objective(const LP& lp, const std::vector<Q>& x) {
  Q z = lp.offset; for (int j = 0; j < lp.ncols(); j++) z += lp.obj[j] * x[j]; return z;
}
static std::vector<Q> activity(const LP& lp, const std::vector<Q>& x) {
  std::vector<Q> a(lp.nrows(), Q(0));
  for (int i = 0; i < lp.nrows(); i++) for (int j = 0; j < lp.ncols(); j++) if (lp.A[i][j] != 0) a[i] += lp.A[i][j] * x[j];
  return a;
}
static std::vector<Q> redcost(const LP& lp, const std::vector<Q>& y) {
  std::vector<Q> r(lp.obj);
  for (int i = 0; i < lp.nrows(); i++) if (y[i] != 0) for (int j = 0; j < lp.ncols(); j++) if (lp.A[i][j] != 0) r[j] -= lp.A[i][j] * y[i];
  return r;
}
bool exact_feasible(const LP& lp, const std::vector<Q>& x, std::string* why) {
  if ((int)x.size() != lp.ncols()) { setwhy(why, "dimension"); return false; }
  for (int j = 0; j < lp.ncols(); j++) {
    if (lp.lo[j].finite() && x[j] < lp.lo[j].v) { setwhy(why, S("x<lo", j)); return false; }
    if (lp.up[j].finite() && x[j] > lp.up[j].v) { setwhy(why, S("x>up", j)); return false; }
    if (lp.lo[j].inf > 0 || lp.up[j].inf < 0) { setwhy(why, S("empty bound", j)); return false; }
  }
  std::vector<Q> a = activity(lp, x);
  for (int i = 0; i < lp.nrows(); i++) {
    if (lp.lhs[i].finite() && a[i] < lp.lhs[i].v) { setwhy(why, S("Ax<lhs", i)); return false; }
    if (lp.rhs[i].finite() && a[i] > lp.rhs[i].v) { setwhy(why, S("Ax>rhs", i)); return false; }
    if (lp.lhs[i].inf > 0 || lp.rhs[i].inf < 0) { setwhy(why, S("empty side", i)); return false; }
  }
  return true;
}
bool exact_optimal(const LP& lp, const std::vector<Q>& x, const std::vector<Q>& y, Q* z, std::string* why) {
  if ((int)y.size() != lp.nrows()) { setwhy(why, "dimension"); return false; }
  if (!exact_feasible(lp, x, why)) return false;
  int sg = -lp.sense;   // +1 for min, -1 for max
  std::vector<Q> a = activity(lp, x), r = redcost(lp, y);
  for (int j = 0; j < lp.ncols(); j++) {
    int s = sgn(r[j]) * sg;
    if (s > 0 && !(lp.lo[j].finite() && x[j] == lp.lo[j].v)) { setwhy(why, S("redcost>0 but x not at lower", j)); return false; }
    if (s < 0 && !(lp.up[j].finite() && x[j] == lp.up[j].v)) { setwhy(why, S("redcost<0 but x not at upper", j)); return false; }
  }
  for (int i = 0; i < lp.nrows(); i++) {
    int s = sgn(y[i]) * sg;
    if (s > 0 && !(lp.lhs[i].finite() && a[i] == lp.lhs[i].v)) { setwhy(why, S("dual>0 but row not at lhs", i)); return false; }
    if (s < 0 && !(lp.rhs[i].finite() && a[i] == lp.rhs[i].v)) { setwhy(why, S("dual<0 but row not at rhs", i)); return false; }
  }
  if (z) *z = objective(lp, x);
  return true;
}
bool exact_farkas(const LP& lp, const std::vector<Q>& y, std::string* why) {
  if ((int)y.size() != lp.nrows()) { setwhy(why, "dimension"); return false; }
  Q beta = 0;
  for (int i = 0; i < lp.nrows(); i++) {
    if (y[i] > 0) { if (!lp.lhs[i].finite()) { setwhy(why, S("y>0 on row without lhs", i)); return false; } beta += y[i] * lp.lhs[i].v; }
    else if (y[i] < 0) { if (!lp.rhs[i].finite()) { setwhy(why, S("y<0 on row without rhs", i)); return false; } beta += y[i] * lp.rhs[i].v; }
  }
  Q alpha = 0;
  for (int j = 0; j < lp.ncols(); j++) {
    Q v = 0; for (int i = 0; i < lp.nrows(); i++) if (y[i] != 0 && lp.A[i][j] != 0) v += y[i] * lp.A[i][j];
    if (v > 0) { if (!lp.up[j].finite()) { setwhy(why, S("y^TA>0 on column without upper", j)); return false; } alpha += v * lp.up[j].v; }
    else if (v < 0) { if (!lp.lo[j].finite()) { setwhy(why, S("y^TA<0 on column without lower", j)); return false; } alpha += v * lp.lo[j].v; }
  }
  if (!(alpha < beta)) { setwhy(why, "no positive margin"); return false; }
  return true;
}
bool exact_ray(const LP& lp, const std::vector<Q>& d, std::string* why) {
  if ((int)d.size() != lp.ncols()) { setwhy(why, "dimension"); return false; }
  for (int j = 0; j < lp.ncols(); j++) {
    if (d[j] > 0 && lp.up[j].inf <= 0) { setwhy(why, S("d>0 with finite upper", j)); return false; }
    if (d[j] < 0 && lp.lo[j].inf >= 0) { setwhy(why, S("d<0 with finite lower", j)); return false; }
  }
  std::vector<Q> a = activity(lp, d);
  for (int i = 0; i < lp.nrows(); i++) {
    if (a[i] > 0 && lp.rhs[i].inf <= 0) { setwhy(why, S("Ad>0 with finite rhs", i)); return false; }
    if (a[i] < 0 && lp.lhs[i].inf >= 0) { setwhy(why, S("Ad<0 with finite lhs", i)); return false; }
  }
  Q cd = 0; for (int j = 0; j < lp.ncols(); j++) cd += lp.obj[j] * d[j];
  if (sgn(cd) * lp.sense <= 0) { setwhy(why, "ray does not improve objective"); return false; }
  return true;
}

// ------------------------------------------------------------------ toleranced
static Q qabs(const Q& q) { return abs(q); }
static Q tolq(double t) { return q_from_double(t); }
bool tol_primal(const LP& lp, const std::vector<Q>& x, const std::vector<Q>* slack, const Tol& t, std::string* why) {
  if ((int)x.size() != lp.ncols()) { setwhy(why, "dimension"); return false; }
  Q ft = tolq(t.feas * t.slack);
  for (int j = 0; j < lp.ncols(); j++) {
    if (lp.lo[j].finite() && x[j] < lp.lo[j].v - ft * (1 + qabs(lp.lo[j].v))) { setwhy(why, S("x<lo", j)); return false; }
    if (lp.up[j].finite() && x[j] > lp.up[j].v + ft * (1 + qabs(lp.up[j].v))) { setwhy(why, S("x>up", j)); return false; }
  }
  for (int i = 0; i < lp.nrows(); i++) {
    Q a = 0, mag = 1;
    for (int j = 0; j < lp.ncols(); j++) if (lp.A[i][j] != 0) { Q term = lp.A[i][j] * x[j]; a += term; if (qabs(term) > mag) mag = qabs(term); }
    Q tl = ft * mag;
    if (lp.lhs[i].finite() && a < lp.lhs[i].v - tl - ft * qabs(lp.lhs[i].v)) { setwhy(why, S("Ax<lhs", i)); return false; }
    if (lp.rhs[i].finite() && a > lp.rhs[i].v + tl + ft * qabs(lp.rhs[i].v)) { setwhy(why, S("Ax>rhs", i)); return false; }
    if (slack) {
      if ((int)slack->size() != lp.nrows()) { setwhy(why, "slack dimension"); return false; }
      if (qabs((*slack)[i] - a) > tl) { setwhy(why, S("slack!=Ax", i)); return false; /*SLACK*/ }
    }
  }
  return true;
}
bool tol_dual(const LP& lp, const std::vector<Q>& y, const std::vector<Q>* rc, const Tol& t, std::string* why) {
  if ((int)y.size() != lp.nrows()) { setwhy(why, "dimension"); return false; }
  Q ot = tolq(t.opt * t.slack);
  int sg = -lp.sense;
  for (int j = 0; j < lp.ncols(); j++) {
    Q r = lp.obj[j], mag = 1 + qabs(lp.obj[j]);
    for (int i = 0; i < lp.nrows(); i++) if (lp.A[i][j] != 0 && y[i] != 0) { Q term = lp.A[i][j] * y[i]; r -= term; if (qabs(term) > mag) mag = qabs(term); }
    Q tl = ot * mag;
    if (rc) {
      if ((int)rc->size() != lp.ncols()) { setwhy(why, "redcost dimension"); return false; }
      if (qabs((*rc)[j] - r) > tl) { setwhy(why, S("redcost!=c-A^Ty", j)); return false; }
    }
    Q sr = r * sg;
    // sign by bound type: no finite lower => cannot be positive; no finite upper => cannot be negative
    if (!lp.lo[j].finite() && sr > tl) { setwhy(why, S("redcost sign (no lower bound)", j)); return false; }
    if (!lp.up[j].finite() && sr < -tl) { setwhy(why, S("redcost sign (no upper bound)", j)); return false; }
  }
  for (int i = 0; i < lp.nrows(); i++) {
    Q sy = y[i] * sg;
    Q tl = ot * (1 + qabs(y[i])) ;
    if (!lp.lhs[i].finite() && sy > tl) { setwhy(why, S("dual sign (no lhs)", i)); return false; }
    if (!lp.rhs[i].finite() && sy < -tl) { setwhy(why, S("dual sign (no rhs)", i)); return false; }
  }
  return true;
}
bool tol_gap(const LP& lp, const std::vector<Q>& x, const std::vector<Q>& y, const Tol& t, std::string* why) {
  // complementary slackness in product form: sum over columns of redcost*(x - bound side) and rows of y*(Ax - side)
  // must vanish (this sum is exactly primal objective minus dual objective).
  int sg = -lp.sense;
  std::vector<Q> r = redcost(lp, y), a = activity(lp, x);
  Q gap = 0, scale = 1 + qabs(objective(lp, x));
  for (int j = 0; j < lp.ncols(); j++) {
    Q sr = r[j] * sg;
    if (sr > 0 && lp.lo[j].finite()) { Q term = sr * (x[j] - lp.lo[j].v); gap += qabs(term); }
    else if (sr < 0 && lp.up[j].finite()) { Q term = sr * (x[j] - lp.up[j].v); gap += qabs(term); }
    if (qabs(r[j] * x[j]) > scale) scale = qabs(r[j] * x[j]);
  }
  for (int i = 0; i < lp.nrows(); i++) {
    Q sy = y[i] * sg;
    if (sy > 0 && lp.lhs[i].finite()) gap += qabs(sy * (a[i] - lp.lhs[i].v));
    else if (sy < 0 && lp.rhs[i].finite()) gap += qabs(sy * (a[i] - lp.rhs[i].v));
    if (qabs(y[i] * a[i]) > scale) scale = qabs(y[i] * a[i]);
  }
  Q tl = tolq((t.feas + t.opt) * t.slack * 10) * scale * (lp.ncols() + lp.nrows() + 1);
  if (gap > tl) { std::ostringstream o; o << "complementarity gap " << gap.get_d(); setwhy(why, o.str()); return false; }
  return true;
}
bool tol_farkas(const LP& lp, const std::vector<Q>& y, const Tol& t, std::string* why) {
  if ((int)y.size() != lp.nrows()) { setwhy(why, "dimension"); return false; }
  Q ymax = 0; for (auto& v : y) if (qabs(v) > ymax) ymax = qabs(v);
  if (ymax == 0) { setwhy(why, "zero Farkas vector"); return false; }
  Q eps = tolq(t.feas * t.slack) ;
  Q beta = 0;
  for (int i = 0; i < lp.nrows(); i++) {
    if (qabs(y[i]) <= eps * ymax && !((y[i] > 0 ? lp.lhs[i] : lp.rhs[i]).finite())) continue;   // negligible on an infinite side
    if (y[i] > 0) { if (!lp.lhs[i].finite()) { setwhy(why, S("y>0 on row without lhs", i)); return false; } beta += y[i] * lp.lhs[i].v; }
    else if (y[i] < 0) { if (!lp.rhs[i].finite()) { setwhy(why, S("y<0 on row without rhs", i)); return false; } beta += y[i] * lp.rhs[i].v; }
  }
  Q alpha = 0;
  for (int j = 0; j < lp.ncols(); j++) {
    Q v = 0, mag = 0;
    for (int i = 0; i < lp.nrows(); i++) if (y[i] != 0 && lp.A[i][j] != 0) { Q term = y[i] * lp.A[i][j]; v += term; if (qabs(term) > mag) mag = qabs(term); }
    if (v > 0) { if (!lp.up[j].finite()) { if (v <= eps * (mag + ymax)) continue; setwhy(why, S("y^TA>0 on column without upper", j)); return false; } alpha += v * lp.up[j].v; }
    else if (v < 0) { if (!lp.lo[j].finite()) { if (-v <= eps * (mag + ymax)) continue; setwhy(why, S("y^TA<0 on column without lower", j)); return false; } alpha += v * lp.lo[j].v; }
  }
  if (!(alpha < beta)) { std::ostringstream o; o << "no positive margin: max y^TAx=" << alpha.get_d() << " side=" << beta.get_d(); setwhy(why, o.str()); return false; }
  return true;
}
bool tol_ray(const LP& lp, const std::vector<Q>& d, const Tol& t, std::string* why) {
  if ((int)d.size() != lp.ncols()) { setwhy(why, "dimension"); return false; }
  Q dmax = 0; for (auto& v : d) if (qabs(v) > dmax) dmax = qabs(v);
  if (dmax == 0) { setwhy(why, "zero ray"); return false; }
  Q eps = tolq(t.feas * t.slack) * dmax;
  for (int j = 0; j < lp.ncols(); j++) {
    if (d[j] > eps && lp.up[j].inf <= 0) { setwhy(why, S("d>0 with finite upper", j)); return false; }
    if (d[j] < -eps && lp.lo[j].inf >= 0) { setwhy(why, S("d<0 with finite lower", j)); return false; }
  }
  for (int i = 0; i < lp.nrows(); i++) {
    Q a = 0, mag = 0;
    for (int j = 0; j < lp.ncols(); j++) if (lp.A[i][j] != 0 && d[j] != 0) { Q term = lp.A[i][j] * d[j]; a += term; if (qabs(term) > mag) mag = qabs(term); }
    Q tl = tolq(t.feas * t.slack) * (mag + dmax);
    if (a > tl && lp.rhs[i].inf <= 0) { setwhy(why, S("Ad>0 with finite rhs", i)); return false; }
    if (a < -tl && lp.lhs[i].inf >= 0) { setwhy(why, S("Ad<0 with finite lhs", i)); return false; }
  }
  Q cd = 0, mag = 0; for (int j = 0; j < lp.ncols(); j++) { Q term = lp.obj[j] * d[j]; cd += term; if (qabs(term) > mag) mag = qabs(term); }
  if (cd * lp.sense <= tolq(1e-12) * mag) { setwhy(why, "ray does not improve objective"); return false; }
  return true;
}

bool basis_matrix(const LP& lp, const std::vector<int>& bind, std::vector<std::vector<Q>>& B) {
  int m = lp.nrows();
  if ((int)bind.size() != m) return false;
  B.assign(m, std::vector<Q>(m, Q(0)));
  for (int k = 0; k < m; k++) {
    int b = bind[k];
    if (b >= 0) { if (b >= lp.ncols()) return false; for (int i = 0; i < m; i++) B[i][k] = lp.A[i][b]; }
    else { int r = -1 - b; if (r >= m) return false; B[r][k] = 1; }
  }
  return true;
}
bool exact_inverse(const std::vector<std::vector<Q>>& B, std::vector<std::vector<Q>>& inv) {
  int m = (int)B.size();
  std::vector<std::vector<Q>> M(m, std::vector<Q>(2 * m, Q(0)));
  for (int i = 0; i < m; i++) { for (int j = 0; j < m; j++) M[i][j] = B[i][j]; M[i][m + i] = 1; }
  for (int c = 0; c < m; c++) {
    int p = -1; for (int i = c; i < m; i++) if (M[i][c] != 0) { p = i; break; }
    if (p < 0) return false;
    std::swap(M[p], M[c]);
    Q pv = M[c][c]; for (int j = 0; j < 2 * m; j++) M[c][j] /= pv;
    for (int i = 0; i < m; i++) if (i != c && M[i][c] != 0) { Q f = M[i][c]; for (int j = 0; j < 2 * m; j++) if (M[c][j] != 0) M[i][j] -= f * M[c][j]; }
  }
  inv.assign(m, std::vector<Q>(m));
  for (int i = 0; i < m; i++) for (int j = 0; j < m; j++) inv[i][j] = M[i][m + j];
  return true;
}
}  // namespace model
