// histsim: API histories on one solver object - modifications through both interfaces, solves (stoppable), basis calls, parameter calls.
// engine "hist": floating-point histories (C06, C09, C15, C04, C05, C01, C02). engine "exact": rational solves with stops (C03, C07, C11).
#include "gen.h"
#include "simcore.h"
namespace sim {
static std::string I(long v) { return std::to_string(v); }
static Op mk(const std::string& obj, const std::string& name) { Op o; o.obj = obj; o.name = name; return o; }

static Op mod_op(Rng& rng, bool ratOK) {
  static const char* kinds[] = {"addrow", "addcol", "addrows", "addcols", "chgrow", "chgcol", "chglhs", "chgrhs", "chgrange", "chglhsvec", "chgrhsvec", "chgrangevec", "chglower", "chgupper", "chgbounds",
                                "chglowervec", "chguppervec", "chgboundsvec", "chgobj", "chgobjvec", "chgelem", "chgelem", "rmrow", "rmcol", "rmrowsperm", "rmcolsperm", "rmrowsidx", "rmcolsidx", "rmrowrange", "rmcolrange",
                                "sense", "offset", "sync", "chgobj", "chgbounds", "chgrhs", "chglhs"};
  Op m = mk("A", "mod"); m.set("kind", kinds[rng.below(sizeof kinds / sizeof kinds[0])]); m.seti("s", (long)rng.below(1 << 30));
  if (ratOK && rng.chance(0.45)) { m.set("iface", "rat"); m.seti("form", rng.range(0, 1)); }
  if (rng.chance(0.01)) m.set("kind", "clearlp");
  return m;
}
static Op stop_small(Rng& rng) {
  Op o = mk("A", "optimize");
  int k = rng.range(0, 9);
  if (k < 4) { o.set("stop", "iter"); o.seti("k", rng.range(0, 6)); }
  else if (k < 7) { o.set("stop", "clock"); o.seti("k", rng.range(0, 80)); o.set("limit", "1000"); }
  else { o.set("stop", "intr_point"); o.seti("k", rng.range(0, 8)); }
  return o;
}

Plan gen_hist(uint64_t seed, const GenOpts& g) {
  Plan p; p.seed = seed; p.engine = "hist";
  Rng rng(mix(seed, 0x4157));
  const std::string& prop = g.prop;
  bool thorough = g.tier == "thorough";
  bool paramsOnly = prop == "C15";   // parameter histories only: the modification part of this engine is not yet trusted (see DESIGN.md)
  bool sync = rng.chance(prop == "C07" ? 1.0 : 0.4);
  model::GenCfg gc; gc.klass = rng.pick({0, 0, 1, 1, 1, 2, 3}); gc.maxRows = rng.range(1, 7); gc.maxCols = rng.range(1, 7); gc.dyadicScale = rng.chance(prop == "C09" ? 0.7 : 0.2);
  Rng lr = rng.fork(1); p.lps.push_back(model::generate(lr, gc));
  p.cfg["clock"] = I(rng.pick({(int)CLK_MIXED, (int)CLK_SUBTICK}));
  if (rng.chance(0.2) && !paramsOnly) { p.cfg["bugmask"] = I(rng.range(1, 7)); p.cfg["bugp"] = rng.pick({"0.3", "1.0"}); p.cfg["bugbudget"] = "2"; p.cfg["bugseed"] = I((long)rng.below(1 << 20)); }
  p.ops.push_back(mk("A", "new"));
  Op sw = swarm_params(rng, "A", false, true);
  if (sync) sw.set("int:syncmode", "1");
  if (prop == "C09") { sw.set("bool:persistentscaling", "1"); sw.set("int:scaler", I(rng.range(1, 6))); }
  p.ops.push_back(sw);
  Op ld = mk("A", "load"); ld.set("lp", "0"); ld.set("via", sync && rng.chance(0.5) ? "rational" : "real"); p.ops.push_back(ld);
  int steps = thorough ? rng.range(8, 40) : rng.range(4, 18);
  if (prop == "C09") steps += 10;
  for (int k = 0; k < steps; k++) {
    int c = rng.range(0, 99);
    if (paramsOnly) {
      Op pa = mk("A", "param"); pa.set("kind", rng.pick({"setvalid", "setvalid", "setbad", "setbad", "parsevalid", "parsebad", "reset", "setsettings"})); pa.seti("s", (long)rng.below(1 << 30)); pa.seti("any", 1); p.ops.push_back(pa);
      continue;
    }
    if (c < 45) p.ops.push_back(mod_op(rng, sync));
    else if (c < 68) {
      if (rng.chance(0.25)) { p.ops.push_back(stop_small(rng)); if (rng.chance(0.5)) { p.ops.push_back(mk("A", "lift")); p.ops.push_back(mk("A", "optimize")); } else p.ops.push_back(mk("A", "lift")); }
      else p.ops.push_back(mk("A", "optimize"));
    }
    else if (c < 74) { Op q = mk("A", "query"); q.set("what", rng.pick({"accessors", "basis", "params", "solution", "sync"})); p.ops.push_back(q); }
    else if (c < 78) p.ops.push_back(mk("A", "clearbasis"));
    else if (c < 83) { Op sb = mk("A", "setbasis"); sb.seti("bseed", (long)rng.below(1 << 30)); p.ops.push_back(sb); }
    else if (c < 95) { Op pa = mk("A", "param"); pa.set("kind", rng.pick({"setvalid", "setvalid", "setbad", "parsevalid", "parsebad", "setsettings"})); pa.seti("s", (long)rng.below(1 << 30)); if (prop != "C15" && rng.chance(0.5)) continue; p.ops.push_back(pa); }
    else { Op s2 = mk("A", "set"); s2.set(rng.pick({"int:simplifier", "int:representation", "int:algorithm", "int:pricer"}), I(rng.range(0, 1))); if (s2.kv[0].first == "int:simplifier") s2.kv[0].second = rng.chance(0.5) ? "0" : "3"; p.ops.push_back(s2); }
  }
  p.ops.push_back(mk("A", "lift"));
  if (!paramsOnly) p.ops.push_back(mk("A", "optimize"));
  return p;
}

// exact engine: rational solves, stops inside them, rational basis inverse, sync after every return
Plan gen_exact(uint64_t seed, const GenOpts& g) {
  Plan p; p.seed = seed; p.engine = "exact";
  Rng rng(mix(seed, 0xE7AC));
  const std::string& prop = g.prop;
  model::GenCfg gc; gc.klass = rng.pick({0, 0, 1, 1, 1, 2, 3}); gc.maxRows = rng.range(1, 6); gc.maxCols = rng.range(1, 6); gc.fractions = rng.chance(0.8); gc.bigRatios = false;
  Rng lr = rng.fork(1); p.lps.push_back(model::generate(lr, gc));
  p.cfg["clock"] = I(rng.pick({(int)CLK_MIXED, (int)CLK_SUBTICK, (int)CLK_TICK}));
  if (rng.chance(0.25)) { p.cfg["bugmask"] = I(rng.pick({2, 2, 3, 6, 7})); p.cfg["bugp"] = rng.pick({"0.3", "1.0"}); p.cfg["bugbudget"] = I(rng.range(1, 3)); p.cfg["bugseed"] = I((long)rng.below(1 << 20)); }
  p.ops.push_back(mk("A", "new"));
  Op sw = swarm_params(rng, "A", true, false);
  p.ops.push_back(sw);
  Op ld = mk("A", "load"); ld.set("lp", "0"); ld.set("via", "rational"); p.ops.push_back(ld);
  int rounds = rng.range(1, 3);
  for (int r = 0; r < rounds; r++) {
    if (rng.chance(prop == "C03" ? 0.3 : 0.6)) {
      Op o = mk("A", "optimize"); int k = rng.range(0, 9);
      if (k < 3) { o.set("stop", "iter"); o.seti("k", rng.range(0, 8)); }
      else if (k < 7) { o.set("stop", "clock"); o.seti("k", rng.chance(0.5) ? (long)rng.range(0, 40) : (long)rng.range(0, 600)); o.set("limit", "1000"); }
      else if (k < 9) { o.set("stop", rng.chance(0.5) ? "reflimit" : "stallref"); o.seti("k", rng.range(0, 3)); }
      else { o.set("stop", "intr_point"); o.seti("k", rng.range(0, 6)); }
      p.ops.push_back(o);
      { Op q = mk("A", "query"); q.set("what", "sync"); p.ops.push_back(q); }
      { Op q = mk("A", "query"); q.set("what", "accessors"); p.ops.push_back(q); }
      { Op q = mk("A", "query"); q.set("what", "params"); p.ops.push_back(q); }
      p.ops.push_back(mk("A", "lift"));
      if (rng.chance(0.3)) { Op s2 = mk("A", "set"); s2.set("int:solvemode", "0"); s2.set("real:feastol", "1e-6"); s2.set("real:opttol", "1e-6"); p.ops.push_back(s2); p.ops.push_back(mk("A", "optimize")); Op s3 = mk("A", "set"); s3.set("int:solvemode", "2"); s3.set("real:feastol", "0"); s3.set("real:opttol", "0"); p.ops.push_back(s3); }
    }
    p.ops.push_back(mk("A", "optimize"));
    { Op q = mk("A", "query"); q.set("what", "ratinverse"); p.ops.push_back(q); }
    if (rng.chance(0.5)) { p.ops.push_back(mod_op(rng, true)); if (rng.chance(0.5)) { Op q = mk("A", "query"); q.set("what", "ratinverse"); p.ops.push_back(q); } }
    if (rng.chance(0.3)) { Op sb = mk("A", "setbasis"); sb.seti("bseed", (long)rng.below(1 << 30)); p.ops.push_back(sb); Op q = mk("A", "query"); q.set("what", "ratinverse"); p.ops.push_back(q); }
  }
  return p;
}
}  // namespace sim
