#include "gen.h"
namespace sim { Plan gen_hist(uint64_t seed, const GenOpts& g) { return gen_stop(seed, g); } }
