// filesim: simulated disk (scratch directory + at-rest faults), readers/writers, restart.
#include "exec.h"
#include "cert.h"
#include <sstream>
#include <fstream>
#include <cstring>
#include <cmath>
#include <algorithm>
#include <zlib.h>
#include <sys/stat.h>
#include <unistd.h>

namespace sim {
using model::Q; using model::Ext; using model::LP;
namespace P { int b(const std::string& n); int i(const std::string& n); int r(const std::string& n); }
static std::string dstr(double d) { char buf[64]; snprintf(buf, sizeof buf, "%.17g", d); return buf; }

static bool slurp(const std::string& f, std::string& out) { std::ifstream in(f, std::ios::binary); if (!in) return false; std::stringstream ss; ss << in.rdbuf(); out = ss.str(); return true; }
static void spit(const std::string& f, const std::string& s) { std::ofstream o(f, std::ios::binary | std::ios::trunc); o.write(s.data(), (std::streamsize)s.size()); }
static std::string gzip(const std::string& in) {
  uLongf n = compressBound(in.size()) + 64; std::string out(n, '\0');
  z_stream zs; memset(&zs, 0, sizeof zs);
  deflateInit2(&zs, 6, Z_DEFLATED, 15 + 16, 8, Z_DEFAULT_STRATEGY);
  zs.next_in = (Bytef*)in.data(); zs.avail_in = (uInt)in.size(); zs.next_out = (Bytef*)&out[0]; zs.avail_out = (uInt)out.size();
  deflate(&zs, Z_FINISH); out.resize(zs.total_out); deflateEnd(&zs);
  return out;
}

// LP as seen through the accessors of the SUT (real: exact images of the doubles; rational: exact)
static bool g_nonfinite = false;
static Q qd(double d) { if (!std::isfinite(d)) { g_nonfinite = true; return Q(0); } return model::q_from_double(d); }
static LP lp_from_sut(sut::Sut& s, bool rational) {
  g_nonfinite = false;
  LP lp; lp.sense = s.getInt(P::i("objsense"));
  double inf = s.getReal(P::r("infty"));
  lp.offset = qd(s.getReal(P::r("obj_offset")));
  if (!rational) {
    int n = s.numCols(), m = s.numRows();
    lp.obj.resize(n); lp.lo.resize(n); lp.up.resize(n); lp.lhs.resize(m); lp.rhs.resize(m); lp.A.assign(m, std::vector<Q>(n, Q(0)));
    for (int j = 0; j < n; j++) { lp.obj[j] = qd(s.obj(j)); lp.lo[j] = model::ext_from_double(s.lower(j), inf); lp.up[j] = model::ext_from_double(s.upper(j), inf); }
    for (int i = 0; i < m; i++) { lp.lhs[i] = model::ext_from_double(s.lhs(i), inf); lp.rhs[i] = model::ext_from_double(s.rhs(i), inf);
      sut::SVec v = s.rowVec(i); for (size_t k = 0; k < v.idx.size(); k++) if (v.idx[k] >= 0 && v.idx[k] < n) lp.A[i][v.idx[k]] = qd(v.val[k]); }
  } else {
    int n = s.numColsRational(), m = s.numRowsRational();
    lp.obj.resize(n); lp.lo.resize(n); lp.up.resize(n); lp.lhs.resize(m); lp.rhs.resize(m); lp.A.assign(m, std::vector<Q>(n, Q(0)));
    for (int j = 0; j < n; j++) { lp.obj[j] = s.objQ(j); s.lowerQ(j, lp.lo[j].inf, lp.lo[j].v); s.upperQ(j, lp.up[j].inf, lp.up[j].v); }
    for (int i = 0; i < m; i++) { s.lhsQ(i, lp.lhs[i].inf, lp.lhs[i].v); s.rhsQ(i, lp.rhs[i].inf, lp.rhs[i].v);
      sut::SVecQ v = s.rowVecQ(i); for (size_t k = 0; k < v.idx.size(); k++) if (v.idx[k] >= 0 && v.idx[k] < n) lp.A[i][v.idx[k]] = v.val[k]; }
  }
  return lp;
}

static bool qclose(const Q& a, const Q& b, double rel) {
  if (a == b) return true; if (rel <= 0) return false;
  double x = a.get_d(), y = b.get_d(); return fabs(x - y) <= rel * std::max(fabs(x), fabs(y)) || fabs(x - y) <= 1.0000001e-15;   // MPS prints 15 decimals (fixed notation)
}
static bool eclose(const Ext& a, const Ext& b, double rel) { if (a.inf != b.inf) return false; return a.inf != 0 || qclose(a.v, b.v, rel); }

// equivalence up to the documented normalisations: ranged rows may be split into two one-sided rows, free rows may vanish,
// a maximisation problem may come back as the minimisation of the negated objective. rel = admissible relative error of a number.
static bool lp_equivalent(const LP& a, const LP& b, double rel, std::string* why, bool ignoreOffset = false) {
  if (a.ncols() != b.ncols()) { *why = "number of columns " + std::to_string(a.ncols()) + " vs " + std::to_string(b.ncols()); return false; }
  int flip = (a.sense == b.sense) ? 1 : -1;
  for (int j = 0; j < a.ncols(); j++) {
    if (!eclose(a.lo[j], b.lo[j], rel)) { *why = "lower bound of column " + std::to_string(j) + ": " + a.lo[j].str() + " vs " + b.lo[j].str(); return false; }
    if (!eclose(a.up[j], b.up[j], rel)) { *why = "upper bound of column " + std::to_string(j) + ": " + a.up[j].str() + " vs " + b.up[j].str(); return false; }
    if (!qclose(a.obj[j], Q(b.obj[j] * flip), rel)) { *why = "objective of column " + std::to_string(j) + ": " + a.obj[j].get_str() + " vs " + b.obj[j].get_str() + (flip < 0 ? " (senses differ)" : ""); return false; }
  }
  // the objective constant is not part of an MPS file (it travels in the settings file); with inverted sense either sign is accepted
  if (!ignoreOffset && !qclose(a.offset, Q(b.offset * flip), rel) && !(flip < 0 && qclose(a.offset, b.offset, rel))) { *why = "objective offset " + a.offset.get_str() + " vs " + b.offset.get_str(); return false; }
  struct R1 { std::vector<Q> c; int type; Q side; };   // type 0: <=, 1: =, 2: >=
  auto expand = [](const LP& lp) {
    std::vector<R1> out;
    for (int i = 0; i < lp.nrows(); i++) {
      const Ext &l = lp.lhs[i], &r = lp.rhs[i];
      if (!l.finite() && !r.finite()) continue;
      if (l.finite() && r.finite() && l.v == r.v) out.push_back({lp.A[i], 1, l.v});
      else { if (l.finite()) out.push_back({lp.A[i], 2, l.v}); if (r.finite()) out.push_back({lp.A[i], 0, r.v}); }
    }
    return out;
  };
  std::vector<R1> ra = expand(a), rb = expand(b);
  if (ra.size() != rb.size()) { *why = "number of (one-sided) rows " + std::to_string(ra.size()) + " vs " + std::to_string(rb.size()); return false; }
  std::vector<char> used(rb.size(), 0);
  for (size_t i = 0; i < ra.size(); i++) {
    bool found = false;
    // rows normally keep their order: try the same position first
    for (size_t t = 0; t < rb.size() && !found; t++) {
      size_t k = (i + t) % rb.size(); if (used[k]) continue;
      if (ra[i].type != rb[k].type || !qclose(ra[i].side, rb[k].side, rel)) continue;
      bool same = true; for (int j = 0; j < a.ncols() && same; j++) if (!qclose(ra[i].c[j], rb[k].c[j], rel)) same = false;
      if (same) { used[k] = 1; found = true; }
    }
    if (!found) { *why = "row " + std::to_string(i) + " of the written LP (after splitting ranges) has no counterpart in the LP read back"; return false; }
  }
  return true;
}

static std::string ext_of(const std::string& kind, bool cpx) { if (kind == "lp") return ".lp"; if (kind == "mps") return ".mps"; if (kind == "bas") return ".bas"; if (kind == "set") return ".set"; (void)cpx; return ".dat"; }

// mirrored storage and basic sanity of an LP that a reader accepted
void Executor::check_loaded_lp(Obj& o, const std::string& what) {
  auto& s = *o.s;
  int m = s.numRows(), n = s.numCols();
  long cnt = 0, cnt2 = 0;
  for (int i = 0; i < m; i++) { sut::SVec r = s.rowVec(i); cnt += (long)r.idx.size();
    { std::vector<char> seen(n > 0 ? n : 1, 0); for (int j : r.idx) { if (j >= 0 && j < n) { if (seen[j]) { o.untrusted_model = true; o.inconsistent = true; viol("C13", "duplicate_entry_accepted", what + ": the reader accepted two coefficients for the same row and column"); return; } seen[j] = 1; } } }
    for (size_t k = 0; k < r.idx.size(); k++) { int j = r.idx[k]; if (j < 0 || j >= n) { viol("C13", "inconsistent_lp_after_read", what + ": row entry with column index out of range"); return; }
      if (s.coef(i, j) != r.val[k]) { viol("C13", "inconsistent_lp_after_read", what + ": coefReal differs from row vector"); return; } } }
  for (int j = 0; j < n; j++) { sut::SVec c = s.colVec(j); cnt2 += (long)c.idx.size();
    for (size_t k = 0; k < c.idx.size(); k++) { int i = c.idx[k]; if (i < 0 || i >= m) { viol("C13", "inconsistent_lp_after_read", what + ": column entry with row index out of range"); return; }
      sut::SVec r = s.rowVec(i); bool f = false; for (size_t q = 0; q < r.idx.size(); q++) if (r.idx[q] == j && r.val[q] == c.val[k]) f = true;
      if (!f) { viol("C13", "inconsistent_lp_after_read", what + ": column entry not mirrored in the row copy"); return; } } }
  if (cnt != cnt2 || cnt != s.numNonzeros()) { viol("C13", "inconsistent_lp_after_read", what + ": nonzero counts of row copy, column copy and numNonzeros() differ"); return; }
  if (s.numRowNames() >= 0 && (s.numRowNames() != m || s.numColNames() != n)) { o.inconsistent = true; viol("C13", "names_do_not_match_dimensions", what + ": name sets do not match the dimensions"); return; }
  if (s.getInt(P::i("syncmode")) != 0 && !s.areLPsInSync(true, true)) {
    // not a defect of the reader: a rational side or bound within one rounding step below the infinity threshold (1e100) is finite in the
    // rational LP and infinite in its double image; areLPsInSync() reports that as a difference (seen with a bit flipped in a 101-digit number)
    bool threshold = false; double inf = s.getReal(P::r("infty"));
    for (int i = 0; i < m && !threshold; i++) { int a, b; Q va, vb; s.lhsQ(i, a, va); s.rhsQ(i, b, vb); if ((a == 0 && s.lhs(i) <= -inf) || (b == 0 && s.rhs(i) >= inf)) threshold = true; }
    for (int j = 0; j < n && !threshold; j++) { int a, b; Q va, vb; s.lowerQ(j, a, va); s.upperQ(j, b, vb); if ((a == 0 && s.lower(j) <= -inf) || (b == 0 && s.upper(j) >= inf)) threshold = true; }
    if (threshold) count("areLPsInSync_infinity_threshold_artifact");
    else { viol("C13", "inconsistent_lp_after_read", what + ": areLPsInSync() false after a successful read"); return; } }
}

void Executor::op_file(const Op& op, TaskCtx& t) {
  std::string what = op.get("do");
  std::string dir = opt_.scratch + "/";
  std::string name = op.get("name", "f");
  Obj* o = op.obj.empty() ? nullptr : obj(op.obj);
  auto path = [&](const std::string& ext) { return dir + name + ext; };

  if (what == "write") {
    if (!o) return;
    std::string kind = op.get("kind", "lp"); bool names = op.geti("names", 0) != 0, cpx = op.geti("cpx", 0) != 0;
    if (names && o->s->numRowNames() < 0) o->s->setDefaultNames();
    bool ok = true;
    if (kind == "lp" || kind == "mps") ok = op.geti("rational", 0) ? o->s->writeFileRational(path(ext_of(kind, cpx)), names) : o->s->writeFile(path(ext_of(kind, cpx)), names, true);
    else if (kind == "bas") { ok = o->s->writeBasisFile(path(".bas"), names, cpx); o->savedBasisName = name; o->savedRows.clear(); o->savedCols.clear(); if (o->s->hasBasis()) o->s->getBasis(o->savedRows, o->savedCols); }
    else if (kind == "set") ok = o->s->saveSettings(path(".set"), op.geti("onlychanged", 0) != 0);
    else if (kind == "state") { if (op.geti("rational", 0)) o->s->writeStateRational(dir + name, names, cpx); else o->s->writeStateReal(dir + name, names, cpx); }
    count("file_write:" + kind); (void)ok;
    return;
  }
  if (what == "blob") {   // put a committed seed file on the simulated disk
    int k = (int)op.geti("blob", 0); if (k < 0 || k >= (int)plan_.blobs.size()) return;
    spit(path(op.get("ext", ".lp")), plan_.blobs[k]); return;
  }
  if (what == "fault") {
    std::string f = path(op.get("ext", ".lp")), data;
    if (!slurp(f, data)) return;
    std::string fk = op.get("fkind", "truncate");
    size_t n = data.size();
    size_t a = n ? (size_t)(op.geti("a", 0) % (long)(n + 1)) : 0;
    if (n && op.geti("tail", 0)) a = n - (size_t)(op.geti("a", 0) % (long)(n / 4 + 1));   // position in the last quarter of the file
    std::string out = data;
    if (fk == "truncate") out = data.substr(0, a);
    else if (fk == "tearzero") { out = data; for (size_t i = a; i < n; i++) out[i] = '\0'; }
    else if (fk == "tearold") { std::string old; if (slurp(path(op.get("oldext", ".old")), old)) { out = data.substr(0, a); if (old.size() > a) out += old.substr(a); } else out = data.substr(0, a); }
    else if (fk == "flipbit") { if (n) { size_t p = a % n; out[p] = (char)(out[p] ^ (1 << (op.geti("b", 0) & 7))); } }
    else if (fk == "setbyte") { if (n) out[a % n] = (char)op.geti("b", 0); }
    else if (fk == "nul") { if (n) out[a % n] = '\0'; }
    else if (fk == "lose") { unlink(f.c_str()); count("file_fault:lose"); res_.nontrivial = true; return; }
    else if (fk == "empty") out.clear();
    else if (fk == "dupline") { size_t ls = data.rfind('\n', a ? a - 1 : 0); ls = ls == std::string::npos ? 0 : ls + 1; size_t le = data.find('\n', a); le = le == std::string::npos ? n : le + 1; out = data.substr(0, le) + data.substr(ls, le - ls) + data.substr(le); }
    else if (fk == "dropline") { size_t ls = data.rfind('\n', a ? a - 1 : 0); ls = ls == std::string::npos ? 0 : ls + 1; size_t le = data.find('\n', a); le = le == std::string::npos ? n : le + 1; out = data.substr(0, ls) + data.substr(le); }
    else if (fk == "longtoken") { out = data.substr(0, a) + std::string((size_t)op.geti("b", 9000), op.geti("c", 'x')) + data.substr(a); }
    else if (fk == "longline") { out = data.substr(0, a) + std::string((size_t)op.geti("b", 9000), ' ') + data.substr(a); }
    else if (fk == "hugeexp") { out = data.substr(0, a) + "1e999999999 " + data.substr(a); }
    else if (fk == "gz") out = gzip(data);
    else if (fk == "gztrunc") { std::string z = gzip(data); out = z.substr(0, z.size() ? a % z.size() : 0); }
    else if (fk == "insline") { size_t ls = data.rfind('\n', a ? a - 1 : 0); ls = ls == std::string::npos ? 0 : ls + 1; out = data.substr(0, ls) + hex_decode(op.get("hex", "")) + data.substr(ls); }
    else if (fk == "insert") { out = data.substr(0, a) + hex_decode(op.get("hex", "")) + data.substr(a); }
    else if (fk == "basrec") {
      // one stored record of a basis file keeps its shape but its status indicator becomes another valid one (XU XL UL LL): the file stays parseable and the number of basic variables no longer fits
      std::vector<size_t> recs; static const char* ind[] = {"XU", "XL", "UL", "LL"};
      for (size_t ls = 0; ls < n;) { size_t le = data.find('\n', ls); if (le == std::string::npos) le = n; if (le - ls >= 4 && data[ls] == ' ') for (int q = 0; q < 4; q++) if (data.compare(ls + 1, 2, ind[q]) == 0 && data[ls + 3] == ' ') { recs.push_back(ls); break; } ls = le + 1; }
      if (!recs.empty()) { size_t ls = recs[a % recs.size()]; int b = (int)(op.geti("b", 0) & 3); if (data.compare(ls + 1, 2, ind[b]) == 0) b = (b + 1) & 3; out.replace(ls + 1, 2, ind[b]); }
    }
    spit(f, out);
    count("file_fault:" + fk); res_.nontrivial = true;
    return;
  }
  if (what == "keepold") { std::string d; if (slurp(path(op.get("ext", ".lp")), d)) spit(path(op.get("oldext", ".old")), d); return; }
  if (what == "read") {
    if (!o) return;
    std::string kind = op.get("kind", "lp"); bool names = op.geti("names", 0) != 0; bool faulted = op.geti("faulted", 0) != 0;
    std::string f = path(op.get("ext", ext_of(kind, false)));
    int outcome = -1;   // 1 ok, 0 reported failure, 2 exception
    std::string exc;
    try {
      if (kind == "lp" || kind == "mps") outcome = o->s->readFile(f, names) ? 1 : 0;
      else if (kind == "bas") outcome = o->s->readBasisFile(f, names) ? 1 : 0;
      else if (kind == "set") outcome = o->s->loadSettings(f) ? 1 : 0;
    } catch (const sut::Exc& e) { outcome = 2; exc = e.what; }
    count(std::string("read_") + kind + (outcome == 1 ? "_ok" : outcome == 0 ? "_failed" : "_exception"));
    // a stream or memory exception is a way of reporting failure; a std::logic_error (std::stoi/std::stoul on a malformed token, substr out of
    // range, ...) escaping from a reader is a parser that did not look at its input
    if (outcome == 2 && (exc.find("invalid_argument") != std::string::npos || exc.find("out_of_range") != std::string::npos || exc.find("logic_error") != std::string::npos || exc.find("length_error") != std::string::npos))
      viol("C13", "logic_error_escaped", "reading a ." + kind + " file: " + exc.substr(0, 160));
    observe_i(*o, outcome);
    if (kind == "lp" || kind == "mps") {
      if (outcome == 1) {
        bool rat = o->s->getInt(P::i("readmode")) == 1 && o->s->getInt(P::i("syncmode")) != 0;
        o->lp = lp_from_sut(*o->s, rat);      // the model follows what the reader accepted; consistency is checked separately
        o->untrusted_model = g_nonfinite; for (int j = 0; j < o->s->numCols(); j++) if (std::isnan(o->s->lower(j)) || std::isnan(o->s->upper(j))) o->untrusted_model = true; for (int i = 0; i < o->s->numRows(); i++) if (std::isnan(o->s->lhs(i)) || std::isnan(o->s->rhs(i))) o->untrusted_model = true;
        if (o->untrusted_model) { count("read_accepted_nonfinite_numbers"); viol("C13", "nonfinite_number_stored", "after readFile(." + kind + "): the reader succeeded and the LP holds a value that is infinite (beyond +/-infinity of SoPlex) or not a number"); }
        o->stopped_since_change = false; o->refReal.valid = o->refRat.valid = false;
        if (opt_.want("C13")) check_loaded_lp(*o, "after readFile(" + op.get("ext", kind) + ")");
      } else {
        // a failed read leaves an LP of unspecified content; the model is re-synchronised from the accessors, the object must stay usable
        o->lp = lp_from_sut(*o->s, false); o->refReal.valid = o->refRat.valid = false; o->stopped_since_change = false; o->untrusted_model = true;
      }
      if (outcome != 1 && !faulted) viol("C12", "valid_file_rejected", "readFile failed on a file written by SoPlex itself: " + f + " " + exc);
    } else if (kind == "bas") {
      if (outcome == 1 && o->s->hasBasis() && (opt_.want("C04") || opt_.want("C14") || opt_.want("C13"))) { if (faulted && !opt_.want("C04") && opt_.want("C13")) basis_prop_ = "C13"; check_basis(*o, false); basis_prop_ = "C04"; }
      if (outcome == 1 && !faulted && opt_.want("C14") && o->savedBasisName == name && (int)o->savedRows.size() == o->s->numRows() && (int)o->savedCols.size() == o->s->numCols() && !o->savedRows.empty()) {
        // the file was written by this object earlier in the history; whatever basis the object holds now, reading restores the saved statuses
        std::vector<int> r2, c2; o->s->getBasis(r2, c2);
        auto same = [&](int x, int y, double lo, double up) { if (x == y) return true; return lo == up && x != sut::VS_BASIC && y != sut::VS_BASIC && x != sut::VS_ZERO && y != sut::VS_ZERO; };
        std::string why;
        for (size_t j = 0; j < c2.size() && why.empty(); j++) if (!same(o->savedCols[j], c2[j], o->s->lower((int)j), o->s->upper((int)j))) why = "column " + std::to_string(j) + " saved as " + std::to_string(o->savedCols[j]) + " restored as " + std::to_string(c2[j]);
        for (size_t i = 0; i < r2.size() && why.empty(); i++) if (!same(o->savedRows[i], r2[i], o->s->lhs((int)i), o->s->rhs((int)i))) why = "row " + std::to_string(i) + " saved as " + std::to_string(o->savedRows[i]) + " restored as " + std::to_string(r2[i]);
        count("basis_restored_into_same_object");
        if (!why.empty()) viol("C14", "basis_roundtrip_differs", "read back into the object that wrote it (now holding another basis): " + why, {{"names", names ? "1" : "0"}, {"into", "self"}});
      }
      if (outcome != 1 && !faulted) viol("C14", "valid_basis_file_rejected", "readBasisFile failed on a basis file written by SoPlex itself (" + std::string(names ? "user names" : "default names") + ") " + exc, {{"names", names ? "1" : "0"}});
    } else if (kind == "set") {
      // the parameter model follows the getters after a settings load (exactness is judged by the round-trip oracle)
      auto& pi = sut::param_info();
      for (int p = 0; p < pi.nbool; p++) o->pm.b[p] = o->s->getBool(p);
      for (int p = 0; p < pi.nint; p++) o->pm.i[p] = o->s->getInt(p);
      for (int p = 0; p < pi.nreal; p++) o->pm.r[p] = o->s->getReal(p);
      o->pm.seed = o->s->seed(); o->lp.sense = o->s->getInt(P::i("objsense")); o->lp.offset = model::q_from_double(o->s->getReal(P::r("obj_offset")));
      if (outcome != 1 && !faulted) viol("C15", "valid_settings_file_rejected", "loadSettingsFile failed on a file written by saveSettingsFile " + exc);
    }
    return;
  }
  if (what == "post") {
    // fixed post-read sequence (C13): the object must still be usable, and after loading a good file it must solve it like a fresh object
    if (!o) return;
    auto& s = *o->s;
    (void)s.numRows(); (void)s.numCols();
    if (o->inconsistent) { count("post_skipped_inconsistent_lp"); s.clearLPReal(); o->inconsistent = false; o->lp = lp_from_sut(s, false); return; }
    // (real-mode readers used to accept non-finite numbers; repaired in /repo - such an LP is now reported by nonfinite_number_stored and solved like any other)
    uint32_t savemask = t.bug_mask; t.bug_mask = 0;
    op_begin(t);
    s.setInt(P::i("iterlimit"), 2000); o->pm.i[P::i("iterlimit")] = 2000;
    int st = s.optimize(nullptr);
    count(std::string("post_status:") + sut::status_name(st));
    s.setInt(P::i("iterlimit"), -1); o->pm.i[P::i("iterlimit")] = -1;
    s.clearLPReal();
    if (s.numRows() != 0 || s.numCols() != 0) viol("C13", "object_unusable_after_read", "clearLPReal() left a non-empty LP");
    int gk = (int)op.geti("good", -1);
    if (gk >= 0 && gk < (int)plan_.lps.size()) {
      // load the good LP through a file written by a never-faulted object
      sut::Sut w;
      { auto& pi = sut::param_info(); for (int p = 0; p < pi.nbool; p++) w.setBool(p, s.getBool(p)); for (int p = 0; p < pi.nint; p++) if (pi.iname[p] != "syncmode" && pi.iname[p] != "readmode") w.setInt(p, s.getInt(p)); for (int p = 0; p < pi.nreal; p++) w.setReal(p, s.getReal(p)); w.setSeed(s.seed()); }
      load_model(w, plan_.lps[gk], false, w.getReal(P::r("infty")));
      std::string gf = dir + "good.lp"; w.writeFile(gf, false, true);
      bool ok = false; try { ok = s.readFile(gf, false); } catch (const sut::Exc&) { ok = false; }
      if (!ok) { viol("C13", "object_unusable_after_read", "readFile of a good file failed after a failed/faulted read"); t.bug_mask = savemask; return; }
      int st1 = s.optimize(nullptr), st2 = w.optimize(nullptr);
      double ov1 = st1 == sut::ST_OPTIMAL ? s.objValue() - s.getReal(P::r("obj_offset")) : 0, ov2 = st2 == sut::ST_OPTIMAL ? w.objValue() - w.getReal(P::r("obj_offset")) : 0;
      if (op.geti("strict", 1) == 0) { if (!(st1 == sut::ST_OPTIMAL || st1 == sut::ST_INFEASIBLE || st1 == sut::ST_UNBOUNDED || st1 == sut::ST_INForUNBD || st1 == sut::ST_ABORT_ITER || st1 == sut::ST_ABORT_TIME || st1 == sut::ST_ABORT_VALUE || st1 == sut::ST_ABORT_CYCLING || st1 == sut::ST_SINGULAR)) viol("C13", "object_unusable_after_read", std::string("after loading faulted settings the object cannot solve a good LP: ") + sut::status_name(st1)); }
      else if (st1 == sut::ST_ABORT_CYCLING || st1 == sut::ST_SINGULAR || st2 == sut::ST_ABORT_CYCLING || st2 == sut::ST_SINGULAR) count("post_solver_gave_up");
      else if (st1 != st2 && [&] { auto nv = [](int x) { return x == sut::ST_INFEASIBLE || x == sut::ST_UNBOUNDED || x == sut::ST_INForUNBD; }; if (!nv(st1) || !nv(st2)) return false;   // primal and dual infeasible: either verdict is admissible (as in the C02/C16 oracles)
                                   const model::RefResult rf = model::ref_solve(real_image(plan_.lps[gk])); return rf.status == model::REF_INFEASIBLE && rf.dual_known && rf.dual_infeasible; }()) count("pdinf_verdicts_equivalent");
      else if (st1 != st2 && [&] { const model::RefResult rf = model::ref_solve(real_image(plan_.lps[gk]));   // knife-edge LPs: the two objects hold different row splits of the same LP (file vs API) and may land on either side
                                   return (rf.status == model::REF_OPTIMAL && (rf.feas_fragile || rf.bounded_fragile)) || (rf.status != model::REF_OPTIMAL && rf.status != model::REF_UNKNOWN && rf.margin < 1e-4); }()) count("fragile_skipped");
      else if (st1 != st2 || (st1 == sut::ST_OPTIMAL && fabs(ov1 - ov2) > 1e-6 * (1 + fabs(ov2)))) {
        std::ostringstream d; d << "after the faulted read the object solves the good LP to " << sut::status_name(st1) << " " << (st1 == sut::ST_OPTIMAL ? dstr(s.objValue()) : "") << ", a fresh object to " << sut::status_name(st2) << " " << (st2 == sut::ST_OPTIMAL ? dstr(w.objValue()) : "");
        viol("C13", "object_unusable_after_read", d.str());
      }
      o->lp = lp_from_sut(s, false); o->refReal.valid = o->refRat.valid = false; o->stopped_since_change = false; o->untrusted_model = false;
      o->lp.sense = s.getInt(P::i("objsense"));
    }
    t.bug_mask = savemask;
    count("post_sequences");
    return;
  }
  if (what == "roundtrip") {
    // C12: write -> restart -> read -> accessors equal the model up to the documented normalisations
    if (!o) return;
    std::string kind = op.get("kind", "lp"); bool rational = op.geti("rational", 0) != 0, names = op.geti("names", 0) != 0;
    std::string f = path(ext_of(kind, false));
    if (names) o->s->setDefaultNames();
    bool wok = rational ? o->s->writeFileRational(f, names) : o->s->writeFile(f, names, true);
    (void)wok;
    if (op.geti("gz", 0)) { std::string d; if (slurp(f, d)) spit(f, gzip(d)); }
    sut::Sut b;
    if (rational) { b.setInt(P::i("syncmode"), 1); b.setInt(P::i("readmode"), 1); }
    bool ok = false; std::string exc;
    try { ok = b.readFile(f, op.geti("readnames", 0) != 0); } catch (const sut::Exc& e) { exc = e.what; }
    count("roundtrips:" + kind + (rational ? ":rational" : ":real")); res_.nontrivial = true;
    auto ctx = ctx_of(*o); ctx["kind"] = kind; ctx["rational"] = rational ? "1" : "0";
    if (!ok) { viol("C12", "valid_file_rejected", "file written by SoPlex (" + kind + (rational ? ", rational" : ", real") + ") cannot be read back: " + exc, ctx); return; }
    LP written = rational ? o->lp : real_image(o->lp);
    LP back = lp_from_sut(b, rational);
    std::string why;
    double rel = (!rational && kind == "mps") ? 2e-15 : 0.0;
    if (!lp_equivalent(written, back, rel, &why, true)) { viol("C12", "roundtrip_differs", kind + (rational ? " rational: " : " real: ") + why, ctx); return; }
    return;
  }
  if (what == "streamread") {
    // the same bytes must parse to the same LP whatever the chunking of the stream (C12/C13 delivery)
    std::string f = path(op.get("ext", ".lp")), data;
    if (!slurp(f, data)) return;
    bool rational = op.geti("rational", 0) != 0;
    sut::BareLP whole, chunked;
    int r1 = -2, r2 = -2; std::string e1, e2;
    { std::istringstream in(data); try { r1 = sut::stream_read_lp(in, rational, whole); } catch (const sut::Exc& e) { r1 = 2; e1 = e.what; } }
    { ChunkBuf cb(data, (size_t)std::max(1L, op.geti("chunk", 1)), mix(plan_.seed, 0xC4), op.geti("failat", -1)); std::istream in(&cb);
      try { r2 = sut::stream_read_lp(in, rational, chunked); } catch (const sut::Exc& e) { r2 = 2; e2 = e.what; }
      count("stream_underflows", (long)cb.underflows); }
    count("stream_reads"); res_.nontrivial = true;
    if (op.geti("failat", -1) < 0) {
      if (r1 != r2 || (r1 == 1 && (whole.rows != chunked.rows || whole.cols != chunked.cols || whole.nnz != chunked.nnz)))
        viol("C12", "chunking_changes_result", "reading the same bytes in chunks of " + op.get("chunk", "1") + " gives a different result than reading them at once");
    }
    if (r2 == 1 && !chunked.consistent) viol("C13", chunked.why.find("name sets") != std::string::npos ? "names_do_not_match_dimensions" : chunked.why.find("duplicate") != std::string::npos ? "duplicate_entry_accepted" : "inconsistent_lp_after_read", "stream read: " + chunked.why);
    return;
  }
  if (what == "basrt" || what == "statert") {
    if (!o) return;
    auto& a = *o->s;
    if (!a.hasBasis()) { count("basrt_no_basis"); return; }
    bool names = op.geti("names", 0) != 0, cpx = op.geti("cpx", 0) != 0, state = what == "statert";
    if (state && cpx) { bool ranged = false; for (int i = 0; i < o->lp.nrows(); i++) if (o->lp.lhs[i].finite() && o->lp.rhs[i].finite() && o->lp.lhs[i] != o->lp.rhs[i]) ranged = true;
      if (ranged) { count("statert_skipped_ranged_rows_in_lp_format"); return; } }   // LP format splits ranged rows (documented): the saved basis cannot name the split rows
    auto ctx = ctx_of(*o); ctx["names"] = names ? "1" : "0"; ctx["cpx"] = cpx ? "1" : "0"; ctx["loaded"] = a.peekIsRealLPLoaded() ? "1" : "0";
    if (names) a.setDefaultNames();
    std::vector<int> rows, cols; a.getBasis(rows, cols);
    int nb = 0; for (int v : rows) nb += v == sut::VS_BASIC; for (int v : cols) nb += v == sut::VS_BASIC;
    if (nb != a.numRows()) { count("basrt_invalid_source_basis"); return; }
    int stA = a.status(); double objA = a.hasSol() && stA == sut::ST_OPTIMAL ? a.objValue() : 0;
    std::unique_ptr<sut::Sut> b(new sut::Sut());
    int crash = (int)op.geti("crash_after", 3);     // files of the snapshot that reached the disk: 3 = all
    std::string base = dir + name;
    if (state) {
      for (const char* e : {".set", ".mps", ".lp", ".bas"}) if (op.geti("stale", 0) == 0) unlink((base + e).c_str());
      a.writeStateReal(base, names, cpx);
      const char* order[3] = {".set", cpx ? ".lp" : ".mps", ".bas"};
      for (int k = crash; k < 3; k++) { if (op.geti("stale", 0)) { std::string old; if (slurp(base + ".prev" + order[k], old)) spit(base + order[k], old); else unlink((base + order[k]).c_str()); } else unlink((base + order[k]).c_str()); }
      if (crash < 3) { count("file_fault:snapshot_crash"); res_.nontrivial = true; }
      if (op.geti("keepprev", 0)) for (int k = 0; k < 3; k++) { std::string d; if (slurp(base + order[k], d)) spit(base + ".prev" + order[k], d); }
      bool okS = false, okL = false, okB = false; std::string exc;
      try { okS = b->loadSettings(base + ".set"); } catch (const sut::Exc& e) { exc = e.what; }
      try { okL = b->readFile(base + (cpx ? ".lp" : ".mps"), names); } catch (const sut::Exc& e) { exc = e.what; }
      try { okB = okL && b->readBasisFile(base + ".bas", names); } catch (const sut::Exc& e) { exc = e.what; }
      count("state_roundtrips"); res_.nontrivial = true;
      if (crash < 3 || op.geti("stale", 0)) {
        // after a torn snapshot only this is demanded: whatever loads is self-consistent and a loaded basis fits the loaded LP
        if (okL) { Obj tmp; tmp.s = std::move(b); tmp.lp = lp_from_sut(*tmp.s, false); tmp.pm.reset(); check_loaded_lp(tmp, "after torn snapshot"); if (okB && tmp.s->hasBasis()) check_basis(tmp, false); b = std::move(tmp.s); }
        return;
      }
      if (!okS) { viol("C14", "state_settings_rejected", "settings file of the snapshot rejected " + exc, ctx); return; }
      if (!okL) { viol("C14", "state_lp_rejected", "LP file of the snapshot rejected " + exc, ctx); return; }
      if (!okB) { viol("C14", "state_basis_rejected", "basis file of the snapshot rejected " + exc, ctx); return; }
      // parameters
      auto& pi = sut::param_info();
      for (int p = 0; p < pi.nbool; p++) if (a.getBool(p) != b->getBool(p)) { viol("C14", "state_param_differs", "bool:" + pi.bname[p], ctx); return; }
      for (int p = 0; p < pi.nint; p++) if (a.getInt(p) != b->getInt(p) && pi.iname[p] != "objsense") { viol("C14", "state_param_differs", "int:" + pi.iname[p] + " " + std::to_string(a.getInt(p)) + " vs " + std::to_string(b->getInt(p)), ctx); return; }
      for (int p = 0; p < pi.nreal; p++) { double x = a.getReal(p), y = b->getReal(p); if (!(x == y || fabs(x - y) <= 1e-14 * std::max(fabs(x), fabs(y)))) { viol("C14", "state_param_differs", "real:" + pi.rname[p] + " " + dstr(x) + " vs " + dstr(y), ctx); return; } }
      LP la = real_image(o->lp), lb = lp_from_sut(*b, false); std::string why;
      if (!lp_equivalent(la, lb, cpx ? 0.0 : 2e-15, &why)) { viol("C14", "state_lp_differs", why, ctx); return; }
    } else {
      a.writeBasisFile(base + ".bas", names, cpx);
      // B holds the same LP (built from the model) and the same parameters
      auto& pi = sut::param_info();
      for (int p = 0; p < pi.nbool; p++) b->setBool(p, a.getBool(p));
      for (int p = 0; p < pi.nint; p++) b->setInt(p, a.getInt(p));
      for (int p = 0; p < pi.nreal; p++) b->setReal(p, a.getReal(p));
      b->setSeed(a.seed());
      load_model(*b, o->lp, false, a.getReal(P::r("infty")));
      if (names) b->setDefaultNames();
      bool okB = false; std::string exc;
      try { okB = b->readBasisFile(base + ".bas", names); } catch (const sut::Exc& e) { exc = e.what; }
      count("basis_roundtrips"); res_.nontrivial = true;
      if (!okB) { viol("C14", "valid_basis_file_rejected", std::string("a basis file written by writeBasisFile cannot be read back (") + (names ? "user names" : "default names") + (cpx ? ", cpx format" : "") + ") " + exc, ctx); return; }
    }
    if (b->numRows() != a.numRows() || b->numCols() != a.numCols()) { if (!state) viol("C14", "basis_roundtrip_dimension", "dimensions differ", ctx); return; }
    if (!b->hasBasis()) { viol("C14", "basis_lost", "no basis after reading the basis file", ctx); return; }
    std::vector<int> r2, c2; b->getBasis(r2, c2);
    // rows may have been split (LP format) only in the state path; then the comparison of row statuses is skipped
    bool sameRows = (int)r2.size() == (int)rows.size();
    auto same = [&](int x, int y, double lo, double up) {   // up to marking variables with equal bounds as fixed
      if (x == y) return true;
      if (lo == up && (x == sut::VS_FIXED || x == sut::VS_ON_LOWER || x == sut::VS_ON_UPPER) && (y == sut::VS_FIXED || y == sut::VS_ON_LOWER || y == sut::VS_ON_UPPER)) return true;
      return false; };
    for (int j = 0; j < (int)cols.size(); j++) if (!same(cols[j], c2[j], a.lower(j), a.upper(j))) { viol("C14", "basis_roundtrip_differs", "column " + std::to_string(j) + " status " + std::to_string(cols[j]) + " restored as " + std::to_string(c2[j]), ctx); return; }
    if (sameRows) for (int i = 0; i < (int)rows.size(); i++) if (!same(rows[i], r2[i], a.lhs(i), a.rhs(i))) { viol("C14", "basis_roundtrip_differs", "row " + std::to_string(i) + " status " + std::to_string(rows[i]) + " restored as " + std::to_string(r2[i]), ctx); return; }
    // the new solver started from the restored basis reaches the same status and value
    if (a.numCols() == 0) count("empty_lp_not_judged");
    else if (stA == sut::ST_OPTIMAL || stA == sut::ST_INFEASIBLE || stA == sut::ST_UNBOUNDED) {
      uint32_t savemask = t.bug_mask; t.bug_mask = 0;
      int stB = b->optimize(nullptr);
      t.bug_mask = savemask;
      bool bothFinal = (stB == sut::ST_OPTIMAL || stB == sut::ST_INFEASIBLE || stB == sut::ST_UNBOUNDED || stB == sut::ST_INForUNBD);
      bool fragileLP = false;
      if (stB != stA && bothFinal && !o->ever_rational) { const model::RefResult& rf = ref_of(*o, false); fragileLP = (rf.status == model::REF_OPTIMAL && (rf.feas_fragile || rf.bounded_fragile)) || (rf.status != model::REF_OPTIMAL && rf.status != model::REF_UNKNOWN && rf.margin < 1e-4); }
      if (fragileLP) count("fragile_skipped");
      else if (stB != stA && !(stA != sut::ST_OPTIMAL && stB != sut::ST_OPTIMAL && (stB == sut::ST_INFEASIBLE || stB == sut::ST_UNBOUNDED || stB == sut::ST_INForUNBD))) {
        ctx["status"] = sut::status_name(stB); ctx["expected"] = sut::status_name(stA);
        viol("C14", (std::string("restored_solve_status:") + sut::status_name(stB)).c_str(), std::string("solver started from the restored basis returns ") + sut::status_name(stB) + ", the saved solver had " + sut::status_name(stA), ctx); return; }
      double objB = stB == sut::ST_OPTIMAL ? b->objValue() : 0;
      if (state && b->getInt(P::i("objsense")) != a.getInt(P::i("objsense"))) objB = -(objB - b->getReal(P::r("obj_offset"))) + a.getReal(P::r("obj_offset"));   // documented MPS sense inversion
      if (stA == sut::ST_OPTIMAL && fabs(objB - objA) > 1e-6 * (1 + fabs(objA))) { viol("C14", "restored_solve_value", "objective " + dstr(objB) + " vs saved " + dstr(objA), ctx); return; }
      if (stA == sut::ST_OPTIMAL && !state) res_.counters["max_iters_from_restored_optimal_basis"] = std::max(res_.counters["max_iters_from_restored_optimal_basis"], (long)b->numIterations());
    }
    return;
  }
  if (what == "setrt") {
    // C15: save -> restart -> load reproduces bool/int exactly and reals to the printed precision
    if (!o) return;
    auto& a = *o->s; std::string f = path(".set");
    bool only = op.geti("onlychanged", 0) != 0;
    bool okw = a.saveSettings(f, only);
    sut::Sut b; bool okr = false; std::string exc;
    try { okr = b.loadSettings(f); } catch (const sut::Exc& e) { exc = e.what; }
    count("settings_roundtrips"); res_.nontrivial = true;
    if (!okw || !okr) { viol("C15", "valid_settings_file_rejected", "saveSettingsFile/loadSettingsFile failed on a fresh settings file " + exc); return; }
    auto& pi = sut::param_info();
    for (int p = 0; p < pi.nbool; p++) if (a.getBool(p) != b.getBool(p)) { viol("C15", "settings_roundtrip", "bool:" + pi.bname[p] + " saved " + std::to_string(a.getBool(p)) + " loaded " + std::to_string(b.getBool(p))); return; }
    for (int p = 0; p < pi.nint; p++) if (a.getInt(p) != b.getInt(p)) { viol("C15", "settings_roundtrip", "int:" + pi.iname[p] + " saved " + std::to_string(a.getInt(p)) + " loaded " + std::to_string(b.getInt(p))); return; }
    for (int p = 0; p < pi.nreal; p++) { double x = a.getReal(p), y = b.getReal(p); if (!(x == y || fabs(x - y) <= 1e-14 * std::max(fabs(x), fabs(y)))) { viol("C15", "settings_roundtrip", "real:" + pi.rname[p] + " saved " + dstr(x) + " loaded " + dstr(y)); return; } }
    if (a.seed() != b.seed() && !only) count("settings_seed_not_saved");
    return;
  }
  if (what == "restart") {
    // crash-restart: the object is destroyed, a new one starts with nothing but the files
    if (o) { uint64_t keep = o->obs; std::string nm = o->name; objs_.erase(nm); std::unique_ptr<Obj> n(new Obj()); n->name = nm; n->s.reset(new sut::Sut()); n->pm.reset(); n->pm.i[P::i("verbosity")] = 0; n->obs = keep; n->owner_task = t.id; objs_[nm] = std::move(n); count("restarts"); }
    return;
  }
}
}  // namespace sim
