// facade part C: rational LP interface, rational solutions, rational basis inverse
#include "sut_common.h"
namespace sut {
static bool hasRat(const SoPlex& s) { return s.intParam(SoPlex::SYNCMODE) != SoPlex::SYNCMODE_ONLYREAL; }
int Sut::numRowsRational() const { return hasRat(SP(p_)) ? SP(p_).numRowsRational() : SP(p_).numRows(); }
int Sut::numColsRational() const { return hasRat(SP(p_)) ? SP(p_).numColsRational() : SP(p_).numCols(); }
int Sut::numNonzerosRational() const { return hasRat(SP(p_)) ? SP(p_).numNonzerosRational() : SP(p_).numNonzeros(); }
static SVecQ tosq(const SVectorRational& v) { SVecQ r; for (int k = 0; k < v.size(); k++) { r.idx.push_back(v.index(k)); r.val.push_back(fromR(v.value(k))); } return r; }
SVecQ Sut::rowVecQ(int i) const { SUT_TRY return tosq(SP(p_).rowVectorRational(i)); SUT_END }
SVecQ Sut::colVecQ(int j) const { SUT_TRY return tosq(SP(p_).colVectorRational(j)); SUT_END }
Q Sut::rationalInfinity() const { return fromR(Rational(SP(p_).realParam(SoPlex::INFTY))); }
static void ext(const SoPlex& s, const Rational& r, int& inf, Q& v) {
  Rational I(s.realParam(SoPlex::INFTY));
  if (r >= I) { inf = 1; v = 0; } else if (r <= -I) { inf = -1; v = 0; } else { inf = 0; v = fromR(r); } }
void Sut::lhsQ(int i, int& inf, Q& v) const { ext(SP(p_), SP(p_).lhsRational(i), inf, v); }
void Sut::rhsQ(int i, int& inf, Q& v) const { ext(SP(p_), SP(p_).rhsRational(i), inf, v); }
void Sut::lowerQ(int j, int& inf, Q& v) const { ext(SP(p_), SP(p_).lowerRational(j), inf, v); }
void Sut::upperQ(int j, int& inf, Q& v) const { ext(SP(p_), SP(p_).upperRational(j), inf, v); }
Q Sut::objQ(int j) const { return fromR(SP(p_).objRational(j)); }
int Sut::rowTypeQ(int i) const { return (int)SP(p_).rowTypeRational(i); }

struct MpqArr { std::vector<mpq_t> a; explicit MpqArr(size_t n) : a(n) { for (auto& x : a) mpq_init(x); } ~MpqArr() { for (auto& x : a) mpq_clear(x); }
  void set(size_t i, const Q& q) { mpq_set(a[i], q.get_mpq_t()); } const mpq_t* ptr() const { return a.data(); } };

void Sut::addRowQ(const Q& l, const SVecQ& v, const Q& r, int form) {
  SUT_TRY
  if (form == 0) { SP(p_).addRowRational(LPRowRational(toR(l), toDSQ(v), toR(r))); return; }
  MpqArr L(1), R(1), V(v.idx.size() + 1); L.set(0, l); R.set(0, r); for (size_t k = 0; k < v.idx.size(); k++) V.set(k, v.val[k]);
  SP(p_).addRowRational(L.ptr(), V.ptr(), v.idx.data(), (int)v.idx.size(), R.ptr());
  SUT_END }
void Sut::addColQ(const Q& c, const Q& lo, const SVecQ& v, const Q& up, int form) {
  SUT_TRY
  if (form == 0) { SP(p_).addColRational(LPColRational(toR(c), toDSQ(v), toR(up), toR(lo))); return; }
  MpqArr C(1), L(1), U(1), V(v.idx.size() + 1); C.set(0, c); L.set(0, lo); U.set(0, up); for (size_t k = 0; k < v.idx.size(); k++) V.set(k, v.val[k]);
  SP(p_).addColRational(C.ptr(), L.ptr(), V.ptr(), v.idx.data(), (int)v.idx.size(), U.ptr());
  SUT_END }
void Sut::addRowsQ(const std::vector<Q>& l, const std::vector<SVecQ>& v, const std::vector<Q>& r, int form) {
  SUT_TRY
  if (form == 0) { LPRowSetRational rs; for (size_t k = 0; k < l.size(); k++) rs.add(LPRowRational(toR(l[k]), toDSQ(v[k]), toR(r[k]))); SP(p_).addRowsRational(rs); return; }
  size_t nn = 0; for (auto& x : v) nn += x.idx.size();
  MpqArr L(l.size() + 1), R(l.size() + 1), V(nn + 1); std::vector<int> idx(nn + 1), st(l.size() + 1), len(l.size() + 1);
  size_t pos = 0;
  for (size_t k = 0; k < l.size(); k++) { L.set(k, l[k]); R.set(k, r[k]); st[k] = (int)pos; len[k] = (int)v[k].idx.size();
    for (size_t q = 0; q < v[k].idx.size(); q++) { idx[pos] = v[k].idx[q]; V.set(pos, v[k].val[q]); pos++; } }
  SP(p_).addRowsRational(L.ptr(), V.ptr(), idx.data(), st.data(), len.data(), (int)l.size(), (int)nn, R.ptr());
  SUT_END }
void Sut::addColsQ(const std::vector<Q>& c, const std::vector<Q>& lo, const std::vector<SVecQ>& v, const std::vector<Q>& up, int form) {
  SUT_TRY
  if (form == 0) { LPColSetRational cs; for (size_t k = 0; k < c.size(); k++) cs.add(LPColRational(toR(c[k]), toDSQ(v[k]), toR(up[k]), toR(lo[k]))); SP(p_).addColsRational(cs); return; }
  size_t nn = 0; for (auto& x : v) nn += x.idx.size();
  MpqArr C(c.size() + 1), L(c.size() + 1), U(c.size() + 1), V(nn + 1); std::vector<int> idx(nn + 1), st(c.size() + 1), len(c.size() + 1);
  size_t pos = 0;
  for (size_t k = 0; k < c.size(); k++) { C.set(k, c[k]); L.set(k, lo[k]); U.set(k, up[k]); st[k] = (int)pos; len[k] = (int)v[k].idx.size();
    for (size_t q = 0; q < v[k].idx.size(); q++) { idx[pos] = v[k].idx[q]; V.set(pos, v[k].val[q]); pos++; } }
  SP(p_).addColsRational(C.ptr(), L.ptr(), V.ptr(), idx.data(), st.data(), len.data(), (int)c.size(), (int)nn, U.ptr());
  SUT_END }
void Sut::changeRowQ(int i, const Q& l, const SVecQ& v, const Q& r) { SUT_TRY SP(p_).changeRowRational(i, LPRowRational(toR(l), toDSQ(v), toR(r))); SUT_END }
void Sut::changeColQ(int j, const Q& c, const Q& lo, const SVecQ& v, const Q& up) { SUT_TRY SP(p_).changeColRational(j, LPColRational(toR(c), toDSQ(v), toR(up), toR(lo))); SUT_END }
static VectorRational tovq(const std::vector<Q>& v) { VectorRational r((int)v.size()); for (size_t i = 0; i < v.size(); i++) r[(int)i] = toR(v[i]); return r; }
void Sut::changeLhsQ(int i, const Q& v, int form) { SUT_TRY if (form == 0) SP(p_).changeLhsRational(i, toR(v)); else { MpqArr a(1); a.set(0, v); SP(p_).changeLhsRational(i, a.ptr()); } SUT_END }
void Sut::changeRhsQ(int i, const Q& v, int form) { SUT_TRY (void)form; SP(p_).changeRhsRational(i, toR(v)); SUT_END }
void Sut::changeRangeQ(int i, const Q& l, const Q& r, int form) { SUT_TRY if (form == 0) SP(p_).changeRangeRational(i, toR(l), toR(r)); else { MpqArr a(1), b(1); a.set(0, l); b.set(0, r); SP(p_).changeRangeRational(i, a.ptr(), b.ptr()); } SUT_END }
void Sut::changeLhsVecQ(const std::vector<Q>& v) { SUT_TRY SP(p_).changeLhsRational(tovq(v)); SUT_END }
void Sut::changeRhsVecQ(const std::vector<Q>& v, int form) { SUT_TRY if (form == 0) SP(p_).changeRhsRational(tovq(v)); else { MpqArr a(v.size() + 1); for (size_t k = 0; k < v.size(); k++) a.set(k, v[k]); SP(p_).changeRhsRational(a.ptr(), (int)v.size()); } SUT_END }
void Sut::changeRangeVecQ(const std::vector<Q>& l, const std::vector<Q>& r) { SUT_TRY SP(p_).changeRangeRational(tovq(l), tovq(r)); SUT_END }
void Sut::changeLowerQ(int j, const Q& v, int form) { SUT_TRY if (form == 0) SP(p_).changeLowerRational(j, toR(v)); else { MpqArr a(1); a.set(0, v); SP(p_).changeLowerRational(j, a.ptr()); } SUT_END }
void Sut::changeUpperQ(int j, const Q& v, int form) { SUT_TRY if (form == 0) SP(p_).changeUpperRational(j, toR(v)); else { MpqArr a(1); a.set(0, v); SP(p_).changeUpperRational(j, a.ptr()); } SUT_END }
void Sut::changeBoundsQ(int j, const Q& l, const Q& u, int form) { SUT_TRY if (form == 0) SP(p_).changeBoundsRational(j, toR(l), toR(u)); else { MpqArr a(1), b(1); a.set(0, l); b.set(0, u); SP(p_).changeBoundsRational(j, a.ptr(), b.ptr()); } SUT_END }
void Sut::changeLowerVecQ(const std::vector<Q>& v) { SUT_TRY SP(p_).changeLowerRational(tovq(v)); SUT_END }
void Sut::changeUpperVecQ(const std::vector<Q>& v) { SUT_TRY SP(p_).changeUpperRational(tovq(v)); SUT_END }
void Sut::changeBoundsVecQ(const std::vector<Q>& l, const std::vector<Q>& u) { SUT_TRY SP(p_).changeBoundsRational(tovq(l), tovq(u)); SUT_END }
void Sut::changeObjQ(int j, const Q& v, int form) { SUT_TRY if (form == 0) SP(p_).changeObjRational(j, toR(v)); else { MpqArr a(1); a.set(0, v); SP(p_).changeObjRational(j, a.ptr()); } SUT_END }
void Sut::changeObjVecQ(const std::vector<Q>& v) { SUT_TRY SP(p_).changeObjRational(tovq(v)); SUT_END }
void Sut::changeElementQ(int i, int j, const Q& v, int form) { SUT_TRY if (form == 0) SP(p_).changeElementRational(i, j, toR(v)); else { MpqArr a(1); a.set(0, v); SP(p_).changeElementRational(i, j, a.ptr()); } SUT_END }
void Sut::removeRowQ(int i) { SUT_TRY SP(p_).removeRowRational(i); SUT_END }
void Sut::removeColQ(int j) { SUT_TRY SP(p_).removeColRational(j); SUT_END }
void Sut::removeRowsPermQ(std::vector<int>& perm) { SUT_TRY SP(p_).removeRowsRational(perm.data()); SUT_END }
void Sut::removeColsPermQ(std::vector<int>& perm) { SUT_TRY SP(p_).removeColsRational(perm.data()); SUT_END }
void Sut::removeRowsIdxQ(std::vector<int> idx, std::vector<int>* perm) { SUT_TRY if (perm) perm->assign(numRowsRational(), 0); SP(p_).removeRowsRational(idx.data(), (int)idx.size(), perm ? perm->data() : nullptr); SUT_END }
void Sut::removeColsIdxQ(std::vector<int> idx, std::vector<int>* perm) { SUT_TRY if (perm) perm->assign(numColsRational(), 0); SP(p_).removeColsRational(idx.data(), (int)idx.size(), perm ? perm->data() : nullptr); SUT_END }
void Sut::removeRowRangeQ(int a, int b, std::vector<int>* perm) { SUT_TRY if (perm) perm->assign(numRowsRational(), 0); SP(p_).removeRowRangeRational(a, b, perm ? perm->data() : nullptr); SUT_END }
void Sut::removeColRangeQ(int a, int b, std::vector<int>* perm) { SUT_TRY if (perm) perm->assign(numColsRational(), 0); SP(p_).removeColRangeRational(a, b, perm ? perm->data() : nullptr); SUT_END }
void Sut::clearLPRational() { SUT_TRY SP(p_).clearLPRational(); SUT_END }
void Sut::syncLPRational() { SUT_TRY SP(p_).syncLPRational(); SUT_END }
bool Sut::areLPsInSync(bool vecVals, bool matVals) const { SUT_TRY return const_cast<SoPlex&>(SP(p_)).areLPsInSync(vecVals, matVals, true); SUT_END }

Q Sut::objValueQ() { SUT_TRY return fromR(SP(p_).objValueRational()); SUT_END }
static bool getvq(SoPlex& s, bool (SoPlex::*f)(VectorRational&), int dim, std::vector<Q>& out) {
  VectorRational v(dim); bool ok = (s.*f)(v); out.resize(dim); for (int i = 0; i < dim; i++) out[i] = fromR(v[i]); return ok; }
bool Sut::getPrimalQ(std::vector<Q>& v) { SUT_TRY return getvq(SP(p_), &SoPlex::getPrimalRational, numColsRational(), v); SUT_END }
bool Sut::getSlacksQ(std::vector<Q>& v) { SUT_TRY return getvq(SP(p_), &SoPlex::getSlacksRational, numRowsRational(), v); SUT_END }
bool Sut::getDualQ(std::vector<Q>& v) { SUT_TRY return getvq(SP(p_), &SoPlex::getDualRational, numRowsRational(), v); SUT_END }
bool Sut::getRedCostQ(std::vector<Q>& v) { SUT_TRY return getvq(SP(p_), &SoPlex::getRedCostRational, numColsRational(), v); SUT_END }
bool Sut::getPrimalRayQ(std::vector<Q>& v) { SUT_TRY return getvq(SP(p_), &SoPlex::getPrimalRayRational, numColsRational(), v); SUT_END }
bool Sut::getDualFarkasQ(std::vector<Q>& v) { SUT_TRY return getvq(SP(p_), &SoPlex::getDualFarkasRational, numRowsRational(), v); SUT_END }

bool Sut::computeBasisInverseRational() { SUT_TRY return SP(p_).computeBasisInverseRational(); SUT_END }
bool Sut::getBasisIndRational(std::vector<int>& bind) { SUT_TRY DataArray<int> b; bool ok = SP(p_).getBasisIndRational(b); bind.assign(b.get_const_ptr(), b.get_const_ptr() + b.size()); return ok; SUT_END }
static void fromss(const SSVectorRational& v, std::vector<Q>& dense, std::vector<int>& idx) {
  dense.resize(v.dim()); for (int i = 0; i < v.dim(); i++) dense[i] = fromR(v[i]);
  idx.clear(); if (v.isSetup()) for (int k = 0; k < v.size(); k++) idx.push_back(v.index(k)); else idx.push_back(-2); }
bool Sut::basisInverseRowQ(int r, std::vector<Q>& dense, std::vector<int>& idx) { SUT_TRY SSVectorRational v(numRowsRational()); bool ok = SP(p_).getBasisInverseRowRational(r, v); fromss(v, dense, idx); return ok; SUT_END }
bool Sut::basisInverseColQ(int c, std::vector<Q>& dense, std::vector<int>& idx) { SUT_TRY SSVectorRational v(numRowsRational()); bool ok = SP(p_).getBasisInverseColRational(c, v); fromss(v, dense, idx); return ok; SUT_END }
bool Sut::basisInverseTimesVecQ(const SVecQ& rhs, std::vector<Q>& dense, std::vector<int>& idx) { SUT_TRY SSVectorRational v(numRowsRational()); DSVectorRational r = toDSQ(rhs); bool ok = SP(p_).getBasisInverseTimesVecRational(r, v); fromss(v, dense, idx); return ok; SUT_END }
}  // namespace sut
