// Seeded PRNG: everything a run decides derives from one 64-bit seed.
#pragma once
#include <cstdint>
#include <string>
namespace sim {
inline uint64_t splitmix64(uint64_t& x) {
  uint64_t z = (x += 0x9E3779B97F4A7C15ull);
  z = (z ^ (z >> 30)) * 0xBF58476D1CE4E5B9ull;
  z = (z ^ (z >> 27)) * 0x94D049BB133111EBull;
  return z ^ (z >> 31);
}
inline uint64_t mix(uint64_t a, uint64_t b) {
  uint64_t x = a ^ (b * 0xD6E8FEB86659FD93ull + 0x9E3779B97F4A7C15ull);
  splitmix64(x); return splitmix64(x);
}
struct Rng {
  uint64_t s[4];
  explicit Rng(uint64_t seed = 1) { reseed(seed); }
  void reseed(uint64_t seed) { uint64_t x = seed; for (auto& v : s) v = splitmix64(x); }
  static uint64_t rotl(uint64_t x, int k) { return (x << k) | (x >> (64 - k)); }
  uint64_t next() {
    uint64_t r = rotl(s[1] * 5, 7) * 9, t = s[1] << 17;
    s[2] ^= s[0]; s[3] ^= s[1]; s[1] ^= s[2]; s[0] ^= s[3]; s[2] ^= t; s[3] = rotl(s[3], 45);
    return r;
  }
  // uniform in [0,n)
  uint64_t below(uint64_t n) { return n ? next() % n : 0; }
  int range(int lo, int hi) { return lo + (int)below((uint64_t)(hi - lo + 1)); }  // inclusive
  bool chance(double p) { return (next() >> 11) * (1.0 / 9007199254740992.0) < p; }
  double unit() { return (next() >> 11) * (1.0 / 9007199254740992.0); }
  template <class T> const T& pick(const std::initializer_list<T>& l) { return *(l.begin() + below(l.size())); }
  Rng fork(uint64_t tag) { return Rng(mix(next(), tag)); }
};
// FNV-1a style rolling digest
struct Digest {
  uint64_t h = 0xcbf29ce484222325ull;
  void bytes(const void* p, size_t n) { auto* b = (const unsigned char*)p; for (size_t i = 0; i < n; i++) { h ^= b[i]; h *= 0x100000001b3ull; } }
  void u64(uint64_t v) { bytes(&v, 8); }
  void i(long long v) { bytes(&v, 8); }
  void d(double v) { bytes(&v, 8); }
  void str(const std::string& s) { u64(s.size()); bytes(s.data(), s.size()); }
};
}  // namespace sim
