// modification ops, queries, accessor/parameter oracles
#include "exec.h"
#include "cert.h"
#include <sstream>
#include <cstring>
#include <cmath>
#include <climits>
namespace sim {
using model::Q; using model::Ext; using model::LP;
namespace P { int b(const std::string& n); int i(const std::string& n); int r(const std::string& n); }
static std::string dstr(double d) { char buf[64]; snprintf(buf, sizeof buf, "%.17g", d); return buf; }
static bool bitdiff(double a, double b) { return memcmp(&a, &b, 8) != 0; }

void Executor::op_query(const Op& op, TaskCtx& t) {
  (void)t;
  Obj* o = obj(op.obj); if (!o) return;
  std::string what = op.get("what", "solution");
  if (what == "solution") observe_solution(*o);
  else if (what == "accessors") { check_accessors(*o); }
  else if (what == "basis") { if (o->s->hasBasis()) { check_basis(*o, false); if (opt_.want("C05")) check_inverse(*o); } }
  else if (what == "params") check_params(*o);
  else if (what == "ratinverse") check_ratinverse(*o);
  else if (what == "sync") { if (o->s->getInt(P::i("syncmode")) == 1) check_sync(*o); }
  else if (what == "dumpbasis") {   // debugging aid for replays: print what the basis queries return
    auto& s = *o->s; std::vector<int> r, c, b; s.getBasis(r, c); s.getBasisInd(b, s.numRows() + 4);
    fprintf(stderr, "[dumpbasis] hasBasis=%d basisStatus=%d rows=%d cols=%d rowstat:", (int)s.hasBasis(), s.basisStatus(), s.numRows(), s.numCols());
    for (int v : r) fprintf(stderr, " %d", v); fprintf(stderr, " colstat:"); for (int v : c) fprintf(stderr, " %d", v); fprintf(stderr, " bind:"); for (int v : b) fprintf(stderr, " %d", v);
    fprintf(stderr, " colbounds:"); for (int j = 0; j < s.numCols(); j++) fprintf(stderr, " [%g,%g]", s.lower(j), s.upper(j)); fprintf(stderr, " model:"); for (int j = 0; j < o->lp.ncols(); j++) fprintf(stderr, " [%s,%s]", o->lp.lo[j].str().c_str(), o->lp.up[j].str().c_str()); fprintf(stderr, "\n");
  }
}

// every accessor of the real LP equals the double image of the model, bit for bit
void Executor::check_accessors(Obj& o) {
  auto& s = *o.s;
  const LP& lp = o.lp;
  auto ctx = ctx_of(o);
  double inf = s.getReal(P::r("infty"));
  const char* prop = (s.peekIsRealLPScaled() || s.getBool(P::b("persistentscaling"))) && opt_.want("C09") ? "C09" : "C06";
  count("accessor_checks");
  if (s.numRows() != lp.nrows() || s.numCols() != lp.ncols()) { std::ostringstream d; d << "dimensions " << s.numRows() << "x" << s.numCols() << " vs model " << lp.nrows() << "x" << lp.ncols(); viol(prop, "accessor_dimensions", d.str(), ctx); return; }
  if (s.numNonzeros() != lp.nnz()) { std::ostringstream d; d << "numNonzeros " << s.numNonzeros() << " vs model " << lp.nnz(); viol(prop, "accessor_nnz", d.str(), ctx); return; }
  if (s.getInt(P::i("objsense")) != lp.sense) { viol(prop, "accessor_sense", "objective sense differs from model", ctx); return; }
  for (int j = 0; j < lp.ncols(); j++) {
    double lo = model::ext_to_double(lp.lo[j], inf), up = model::ext_to_double(lp.up[j], inf), c = model::q_to_double_nearest(lp.obj[j]);
    if (bitdiff(s.lower(j), lo) && !(s.lower(j) <= -inf && lo <= -inf) && !(o.ever_rational && lp.lo[j].finite() && model::double_is_image(lp.lo[j].v, s.lower(j)))) { viol(prop, "accessor_lower", "lowerReal(" + std::to_string(j) + ")=" + dstr(s.lower(j)) + " model " + dstr(lo), ctx); return; }
    if (bitdiff(s.upper(j), up) && !(s.upper(j) >= inf && up >= inf) && !(o.ever_rational && lp.up[j].finite() && model::double_is_image(lp.up[j].v, s.upper(j)))) { viol(prop, "accessor_upper", "upperReal(" + std::to_string(j) + ")=" + dstr(s.upper(j)) + " model " + dstr(up), ctx); return; }
    if (s.obj(j) != c && !(o.ever_rational && model::double_is_image(lp.obj[j], s.obj(j)))) { viol(prop, "accessor_obj", "objReal(" + std::to_string(j) + ")=" + dstr(s.obj(j)) + " model " + dstr(c), ctx); return; }
    sut::SVec cv = s.colVec(j);
    int nz = 0;
    for (size_t k = 0; k < cv.idx.size(); k++) {
      int i = cv.idx[k]; if (i < 0 || i >= lp.nrows()) { viol(prop, "accessor_colvec", "column vector index out of range", ctx); return; }
      if (bitdiff(cv.val[k], model::q_to_double_nearest(lp.A[i][j])) && !(o.ever_rational && model::double_is_image(lp.A[i][j], cv.val[k]))) { viol(prop, "accessor_colvec", "column " + std::to_string(j) + " row " + std::to_string(i) + ": " + dstr(cv.val[k]) + " model " + lp.A[i][j].get_str(), ctx); return; }
      nz++;
    }
    int mz = 0; for (int i = 0; i < lp.nrows(); i++) if (lp.A[i][j] != 0) mz++;
    if (nz != mz) { viol(prop, "accessor_colvec", "column " + std::to_string(j) + " has " + std::to_string(nz) + " nonzeros, model " + std::to_string(mz), ctx); return; }
  }
  for (int i = 0; i < lp.nrows(); i++) {
    double l = model::ext_to_double(lp.lhs[i], inf), r = model::ext_to_double(lp.rhs[i], inf);
    if (bitdiff(s.lhs(i), l) && !(s.lhs(i) <= -inf && l <= -inf) && !(o.ever_rational && lp.lhs[i].finite() && model::double_is_image(lp.lhs[i].v, s.lhs(i)))) { viol(prop, "accessor_lhs", "lhsReal(" + std::to_string(i) + ")=" + dstr(s.lhs(i)) + " model " + dstr(l), ctx); return; }
    if (bitdiff(s.rhs(i), r) && !(s.rhs(i) >= inf && r >= inf) && !(o.ever_rational && lp.rhs[i].finite() && model::double_is_image(lp.rhs[i].v, s.rhs(i)))) { viol(prop, "accessor_rhs", "rhsReal(" + std::to_string(i) + ")=" + dstr(s.rhs(i)) + " model " + dstr(r), ctx); return; }
    sut::SVec rv = s.rowVec(i);
    int nz = 0;
    for (size_t k = 0; k < rv.idx.size(); k++) {
      int j = rv.idx[k]; if (j < 0 || j >= lp.ncols()) { viol(prop, "accessor_rowvec", "row vector index out of range", ctx); return; }
      if (bitdiff(rv.val[k], model::q_to_double_nearest(lp.A[i][j])) && !(o.ever_rational && model::double_is_image(lp.A[i][j], rv.val[k]))) { viol(prop, "accessor_rowvec", "row " + std::to_string(i) + " column " + std::to_string(j) + ": " + dstr(rv.val[k]) + " model " + lp.A[i][j].get_str(), ctx); return; }
      nz++;
      if (bitdiff(s.coef(i, j), rv.val[k])) { viol(prop, "accessor_coef", "coefReal differs from the row vector entry", ctx); return; }
    }
    int mz = 0; for (int j = 0; j < lp.ncols(); j++) if (lp.A[i][j] != 0) mz++;
    if (nz != mz) { viol(prop, "accessor_rowvec", "row " + std::to_string(i) + " has " + std::to_string(nz) + " nonzeros, model " + std::to_string(mz), ctx); return; }
    int rt = s.rowType(i);   // LPRowBase::Type: LESS_EQUAL=0, EQUAL=1, GREATER_EQUAL=2, RANGE=3 (two different rationals may share one double image, verified above: the real LP then holds an equation)
    int want = (lp.lhs[i].finite() && lp.rhs[i].finite()) ? ((lp.lhs[i] == lp.rhs[i] || (o.ever_rational && s.lhs(i) == s.rhs(i))) ? 1 : 3) : lp.lhs[i].finite() ? 2 : lp.rhs[i].finite() ? 0 : 3;
    if (rt != want && !(want == 3 && !lp.lhs[i].finite() && !lp.rhs[i].finite())) { viol(prop, "accessor_rowtype", "rowTypeReal(" + std::to_string(i) + ")=" + std::to_string(rt) + " model " + std::to_string(want) + " (lhsReal " + dstr(s.lhs(i)) + " rhsReal " + dstr(s.rhs(i)) + ", model lhs " + lp.lhs[i].str() + " rhs " + lp.rhs[i].str() + ")", ctx); return; }
  }
}

void Executor::check_params(Obj& o) {
  auto& s = *o.s; auto& pi = sut::param_info();
  for (int p = 0; p < pi.nbool; p++) if (s.getBool(p) != o.pm.b[p]) { viol("C15", "param_value", "bool:" + pi.bname[p] + " is " + std::to_string(s.getBool(p)) + ", model " + std::to_string(o.pm.b[p])); return; }
  for (int p = 0; p < pi.nint; p++) if (s.getInt(p) != o.pm.i[p]) { viol("C15", "param_value", "int:" + pi.iname[p] + " is " + std::to_string(s.getInt(p)) + ", model " + std::to_string(o.pm.i[p])); return; }
  for (int p = 0; p < pi.nreal; p++) if (bitdiff(s.getReal(p), o.pm.r[p])) { viol("C15", "param_value", "real:" + pi.rname[p] + " is " + dstr(s.getReal(p)) + ", model " + dstr(o.pm.r[p])); return; }
}


// ------------------------------------------------------------------ modification ops (both interfaces), mirrored on the model
static Q real_in(const Q& q) { return model::q_from_double(model::q_to_double_nearest(q)); }

void Executor::op_modify(const Op& op, TaskCtx& t) {
  (void)t;
  Obj* o = obj(op.obj); if (!o) return;
  auto& s = *o->s; LP& lp = o->lp;
  if (op.name == "setbasis") { op_setbasis(op, *o); return; }
  if (op.name == "param") { op_param(op, *o); return; }
  if (op.name != "mod") { count("unknown_op:" + op.name); return; }
  std::string kind = op.get("kind");
  bool rat = op.get("iface", "real") == "rat" && s.getInt(P::i("syncmode")) != 0;
  int form = (int)op.geti("form", 0);
  Rng r(mix((uint64_t)op.geti("s", 1), 0x40D));
  model::GenCfg gc; gc.fractions = rat;
  double inf = s.getReal(P::r("infty"));
  Q qinf = s.rationalInfinity();
  int m = lp.nrows(), n = lp.ncols();
  auto val = [&](int mag) { Q v = model::gen_value(r, gc, mag); return rat ? v : real_in(v); };
  auto toD = [&](const Ext& e) { return model::ext_to_double(e, inf); };
  auto fixE = [&](Ext e) { if (!rat && e.finite()) e.v = real_in(e.v); return e; };   // what the real interface actually receives
  auto toQ = [&](const Ext& e) { return e.inf > 0 ? qinf : e.inf < 0 ? Q(-qinf) : e.v; };
  auto bounds = [&](Ext& lo, Ext& up, int mag) {   // random consistent pair
    int t2 = r.range(0, 9); Q a = r.chance(0.5) ? Q(0) : val(mag);
    if (t2 <= 2) { lo = Ext(a); up = Ext::pinf(); } else if (t2 <= 4) { lo = Ext::ninf(); up = Ext(a); } else if (t2 <= 6) { lo = Ext(a); up = Ext(Q(a + abs(val(mag)))); }
    else if (t2 == 7) { lo = Ext(a); up = Ext(a); } else { lo = Ext::ninf(); up = Ext::pinf(); }
    lo = fixE(lo); up = fixE(up); if (up < lo) up = lo; };
  auto sparse = [&](int dim, std::vector<Q>& dense) { dense.assign(dim, Q(0)); for (int k = 0; k < dim; k++) if (r.chance(0.5)) dense[k] = val(6); };
  auto svD = [&](const std::vector<Q>& d) { sut::SVec v; for (size_t k = 0; k < d.size(); k++) if (d[k] != 0) { v.idx.push_back((int)k); v.val.push_back(model::q_to_double_nearest(d[k])); } return v; };
  auto svQ = [&](const std::vector<Q>& d) { sut::SVecQ v; for (size_t k = 0; k < d.size(); k++) if (d[k] != 0) { v.idx.push_back((int)k); v.val.push_back(d[k]); } return v; };
  bool changed = true;
  count("mod:" + kind + (rat ? ":rat" : ":real"));

  if (kind == "addrow") { std::vector<Q> c; sparse(n, c); Ext l, u; bounds(l, u, 9); if (rat) s.addRowQ(toQ(l), svQ(c), toQ(u), form); else s.addRow(toD(l), svD(c), toD(u)); lp.addRow(l, c, u); }
  else if (kind == "addcol") { std::vector<Q> c; sparse(m, c); Ext l, u; bounds(l, u, 5); Q ob = r.chance(0.3) ? Q(0) : val(8); if (opt_.verbose) { fprintf(stderr, "[addcol] obj=%s lo=%s up=%s :", ob.get_str().c_str(), l.str().c_str(), u.str().c_str()); for (int i = 0; i < m; i++) if (c[i] != 0) fprintf(stderr, " %d:%s", i, c[i].get_str().c_str()); fprintf(stderr, "\n"); } if (rat) s.addColQ(ob, toQ(l), svQ(c), toQ(u), form); else s.addCol(model::q_to_double_nearest(ob), toD(l), svD(c), toD(u)); lp.addCol(ob, l, c, u); }
  else if (kind == "addrows") {
    int k = r.range(1, 3); std::vector<std::vector<Q>> cs(k); std::vector<Ext> ls(k), us(k);
    for (int q = 0; q < k; q++) { sparse(n, cs[q]); bounds(ls[q], us[q], 9); }
    if (rat) { std::vector<Q> l2, u2; std::vector<sut::SVecQ> v2; for (int q = 0; q < k; q++) { l2.push_back(toQ(ls[q])); u2.push_back(toQ(us[q])); v2.push_back(svQ(cs[q])); } s.addRowsQ(l2, v2, u2, form); }
    else { std::vector<double> l2, u2; std::vector<sut::SVec> v2; for (int q = 0; q < k; q++) { l2.push_back(toD(ls[q])); u2.push_back(toD(us[q])); v2.push_back(svD(cs[q])); } s.addRows(l2, v2, u2); }
    for (int q = 0; q < k; q++) lp.addRow(ls[q], cs[q], us[q]);
  }
  else if (kind == "addcols") {
    int k = r.range(1, 3); std::vector<std::vector<Q>> cs(k); std::vector<Ext> ls(k), us(k); std::vector<Q> ob(k);
    for (int q = 0; q < k; q++) { sparse(m, cs[q]); bounds(ls[q], us[q], 5); ob[q] = val(8); }
    if (rat) { std::vector<Q> l2, u2; std::vector<sut::SVecQ> v2; for (int q = 0; q < k; q++) { l2.push_back(toQ(ls[q])); u2.push_back(toQ(us[q])); v2.push_back(svQ(cs[q])); } s.addColsQ(ob, l2, v2, u2, form); }
    else { std::vector<double> o2, l2, u2; std::vector<sut::SVec> v2; for (int q = 0; q < k; q++) { o2.push_back(model::q_to_double_nearest(ob[q])); l2.push_back(toD(ls[q])); u2.push_back(toD(us[q])); v2.push_back(svD(cs[q])); } s.addCols(o2, l2, v2, u2); }
    for (int q = 0; q < k; q++) lp.addCol(ob[q], ls[q], cs[q], us[q]);
  }
  else if (kind == "chgrow" && m > 0) { int i = r.range(0, m - 1); std::vector<Q> c; sparse(n, c); Ext l, u; bounds(l, u, 9); if (rat) s.changeRowQ(i, toQ(l), svQ(c), toQ(u)); else s.changeRow(i, toD(l), svD(c), toD(u)); lp.A[i] = c; lp.lhs[i] = l; lp.rhs[i] = u; }
  else if (kind == "chgcol" && n > 0) { int j = r.range(0, n - 1); std::vector<Q> c; sparse(m, c); Ext l, u; bounds(l, u, 5); Q ob = val(8); if (rat) s.changeColQ(j, ob, toQ(l), svQ(c), toQ(u)); else s.changeCol(j, model::q_to_double_nearest(ob), toD(l), svD(c), toD(u)); for (int i = 0; i < m; i++) lp.A[i][j] = c[i]; lp.lo[j] = l; lp.up[j] = u; lp.obj[j] = ob; }
  else if (kind == "chglhs" && m > 0) { int i = r.range(0, m - 1); Ext l = lp.rhs[i].finite() ? Ext(Q(lp.rhs[i].v - abs(val(6)))) : Ext(val(9)); if (r.chance(0.2)) l = Ext::ninf(); l = fixE(l); if (rat) s.changeLhsQ(i, toQ(l), form); else s.changeLhs(i, toD(l)); lp.lhs[i] = l; }
  else if (kind == "chgrhs" && m > 0) { int i = r.range(0, m - 1); Ext u = lp.lhs[i].finite() ? Ext(Q(lp.lhs[i].v + abs(val(6)))) : Ext(val(9)); if (r.chance(0.2)) u = Ext::pinf(); u = fixE(u); if (rat) s.changeRhsQ(i, toQ(u), form); else s.changeRhs(i, toD(u)); lp.rhs[i] = u; }
  else if (kind == "chgrange" && m > 0) { int i = r.range(0, m - 1); Ext l, u; bounds(l, u, 9); if (rat) s.changeRangeQ(i, toQ(l), toQ(u), form); else s.changeRange(i, toD(l), toD(u)); lp.lhs[i] = l; lp.rhs[i] = u; }
  else if (kind == "chglhsvec" || kind == "chgrhsvec" || kind == "chgrangevec") {
    std::vector<Ext> l(m), u(m); for (int i = 0; i < m; i++) { bounds(l[i], u[i], 9); if (kind == "chglhsvec") { u[i] = lp.rhs[i]; if (u[i] < l[i]) l[i] = Ext::ninf(); } if (kind == "chgrhsvec") { l[i] = lp.lhs[i]; if (u[i] < l[i]) u[i] = Ext::pinf(); } }
    if (rat) { std::vector<Q> a, b; for (int i = 0; i < m; i++) { a.push_back(toQ(l[i])); b.push_back(toQ(u[i])); } if (kind == "chglhsvec") s.changeLhsVecQ(a); else if (kind == "chgrhsvec") s.changeRhsVecQ(b, form); else s.changeRangeVecQ(a, b); }
    else { std::vector<double> a, b; for (int i = 0; i < m; i++) { a.push_back(toD(l[i])); b.push_back(toD(u[i])); } if (kind == "chglhsvec") s.changeLhsVec(a); else if (kind == "chgrhsvec") s.changeRhsVec(b); else s.changeRangeVec(a, b); }
    for (int i = 0; i < m; i++) { if (kind != "chgrhsvec") lp.lhs[i] = l[i]; if (kind != "chglhsvec") lp.rhs[i] = u[i]; }
  }
  else if (kind == "chglower" && n > 0) { int j = r.range(0, n - 1); Ext l = lp.up[j].finite() ? Ext(Q(lp.up[j].v - abs(val(5)))) : Ext(val(5)); if (r.chance(0.2)) l = Ext::ninf(); l = fixE(l); if (rat) s.changeLowerQ(j, toQ(l), form); else s.changeLower(j, toD(l)); lp.lo[j] = l; }
  else if (kind == "chgupper" && n > 0) { int j = r.range(0, n - 1); Ext u = lp.lo[j].finite() ? Ext(Q(lp.lo[j].v + abs(val(5)))) : Ext(val(5)); if (r.chance(0.2)) u = Ext::pinf(); u = fixE(u); if (rat) s.changeUpperQ(j, toQ(u), form); else s.changeUpper(j, toD(u)); lp.up[j] = u; }
  else if (kind == "chgbounds" && n > 0) { int j = r.range(0, n - 1); Ext l, u; bounds(l, u, 5); if (rat) s.changeBoundsQ(j, toQ(l), toQ(u), form); else s.changeBounds(j, toD(l), toD(u)); lp.lo[j] = l; lp.up[j] = u; }
  else if (kind == "chglowervec" || kind == "chguppervec" || kind == "chgboundsvec") {
    std::vector<Ext> l(n), u(n); for (int j = 0; j < n; j++) { bounds(l[j], u[j], 5); if (kind == "chglowervec") { u[j] = lp.up[j]; if (u[j] < l[j]) l[j] = Ext::ninf(); } if (kind == "chguppervec") { l[j] = lp.lo[j]; if (u[j] < l[j]) u[j] = Ext::pinf(); } }
    if (rat) { std::vector<Q> a, b; for (int j = 0; j < n; j++) { a.push_back(toQ(l[j])); b.push_back(toQ(u[j])); } if (kind == "chglowervec") s.changeLowerVecQ(a); else if (kind == "chguppervec") s.changeUpperVecQ(b); else s.changeBoundsVecQ(a, b); }
    else { std::vector<double> a, b; for (int j = 0; j < n; j++) { a.push_back(toD(l[j])); b.push_back(toD(u[j])); } if (kind == "chglowervec") s.changeLowerVec(a); else if (kind == "chguppervec") s.changeUpperVec(b); else s.changeBoundsVec(a, b); }
    for (int j = 0; j < n; j++) { if (kind != "chguppervec") lp.lo[j] = l[j]; if (kind != "chglowervec") lp.up[j] = u[j]; }
  }
  else if (kind == "chgobj" && n > 0) { int j = r.range(0, n - 1); Q v = r.chance(0.2) ? Q(0) : val(9); if (rat) s.changeObjQ(j, v, form); else s.changeObj(j, model::q_to_double_nearest(v)); lp.obj[j] = v; }
  else if (kind == "chgobjvec") { std::vector<Q> v(n); for (auto& x : v) x = r.chance(0.2) ? Q(0) : val(9); if (rat) s.changeObjVecQ(v); else { std::vector<double> d; for (auto& x : v) d.push_back(model::q_to_double_nearest(x)); s.changeObjVec(d); } lp.obj = v; }
  else if (kind == "chgelem" && n > 0 && m > 0) { int i = r.range(0, m - 1), j = r.range(0, n - 1); Q v = r.chance(0.25) ? Q(0) : val(6); if (rat) s.changeElementQ(i, j, v, form); else s.changeElement(i, j, model::q_to_double_nearest(v)); lp.A[i][j] = v; }
  else if (kind == "rmrow" && m > 0) { int i = r.range(0, m - 1); if (rat) s.removeRowQ(i); else s.removeRow(i); lp.removeRow(i); }
  else if (kind == "rmcol" && n > 1) { int j = r.range(0, n - 1); if (rat) s.removeColQ(j); else s.removeCol(j); lp.removeCol(j); }
  else if ((kind == "rmrowsperm" || kind == "rmrowsidx" || kind == "rmrowrange") && m > 0) {
    std::vector<int> perm(m, 0), idx; 
    if (kind == "rmrowrange") { int a = r.range(0, m - 1), b = r.range(a, std::min(m - 1, a + 2)); for (int i = a; i <= b; i++) perm[i] = -1;
      std::vector<int> got; bool wantperm = r.chance(0.7); if (rat) s.removeRowRangeQ(a, b, wantperm ? &got : nullptr); else s.removeRowRange(a, b, wantperm ? &got : nullptr);
      std::vector<int> mp(perm); lp.removeRows(mp); if (wantperm && got != mp) viol("C06", "perm_output", "removeRowRange perm[] differs from the documented renumbering"); }
    else { for (int i = 0; i < m; i++) if (r.chance(0.3)) { perm[i] = -1; idx.push_back(i); }
      if (kind == "rmrowsidx") { for (size_t q = idx.size(); q > 1; q--) std::swap(idx[q - 1], idx[r.below(q)]); }
      std::vector<int> mp(perm); lp.removeRows(mp);
      if (kind == "rmrowsperm") { std::vector<int> got(perm); if (rat) s.removeRowsPermQ(got); else s.removeRowsPerm(got); if (got != mp) viol("C06", "perm_output", "removeRows(perm) output differs from the documented renumbering"); }
      else { std::vector<int> got; bool wantperm = r.chance(0.7); if (rat) s.removeRowsIdxQ(idx, wantperm ? &got : nullptr); else s.removeRowsIdx(idx, wantperm ? &got : nullptr); if (wantperm && got != mp) viol("C06", "perm_output", "removeRows(idx) perm[] differs from the documented renumbering"); } }
  }
  else if ((kind == "rmcolsperm" || kind == "rmcolsidx" || kind == "rmcolrange") && n > 1) {
    std::vector<int> perm(n, 0), idx;
    if (kind == "rmcolrange") { int a = r.range(0, n - 1), b = r.range(a, std::min(n - 1, a + 1)); if (b - a + 1 >= n) b = a; if (n - (b - a + 1) < 1) return; for (int j = a; j <= b; j++) perm[j] = -1;
      std::vector<int> got; bool wantperm = r.chance(0.7); if (rat) s.removeColRangeQ(a, b, wantperm ? &got : nullptr); else s.removeColRange(a, b, wantperm ? &got : nullptr);
      std::vector<int> mp(perm); lp.removeCols(mp); if (wantperm && got != mp) viol("C06", "perm_output", "removeColRange perm[] differs from the documented renumbering"); }
    else { int left = n; for (int j = 0; j < n; j++) if (left > 1 && r.chance(0.3)) { perm[j] = -1; idx.push_back(j); left--; }
      if (kind == "rmcolsidx") { for (size_t q = idx.size(); q > 1; q--) std::swap(idx[q - 1], idx[r.below(q)]); }
      std::vector<int> mp(perm); lp.removeCols(mp);
      if (kind == "rmcolsperm") { std::vector<int> got(perm); if (rat) s.removeColsPermQ(got); else s.removeColsPerm(got); if (got != mp) viol("C06", "perm_output", "removeCols(perm) output differs from the documented renumbering"); }
      else { std::vector<int> got; bool wantperm = r.chance(0.7); if (rat) s.removeColsIdxQ(idx, wantperm ? &got : nullptr); else s.removeColsIdx(idx, wantperm ? &got : nullptr); if (wantperm && got != mp) viol("C06", "perm_output", "removeCols(idx) perm[] differs from the documented renumbering"); } }
  }
  else if (kind == "clearlp") { if (rat) s.clearLPRational(); else s.clearLPReal(); lp.clear(); }
  else if (kind == "sense") { int v = r.chance(0.5) ? -1 : 1; s.setInt(P::i("objsense"), v); o->pm.i[P::i("objsense")] = v; lp.sense = v; }
  else if (kind == "offset") { Q v = real_in(val(9)); s.setReal(P::r("obj_offset"), v.get_d()); o->pm.r[P::r("obj_offset")] = v.get_d(); lp.offset = v; }
  else if (kind == "sync") { if (s.getInt(P::i("syncmode")) != 0) { if (r.chance(0.5)) s.syncLPReal(); else s.syncLPRational(); } changed = false; }
  else { changed = false; count("mod_skipped"); }

  if (changed) {
    o->stopped_since_change = false; o->buggified_since_change = false; o->refReal.valid = o->refRat.valid = false; o->modified_since_solve = true;
    // nothing cached from before the modification may be reported as current
    if (opt_.want("C06") && kind != "sync" && kind != "offset") {
      if (s.hasSol()) viol("C06", "stale_solution_reported", "hasSol() is true right after " + kind, ctx_of(*o));
      else if (s.status() == sut::ST_OPTIMAL) viol("C06", "stale_status_reported", "status() is OPTIMAL right after " + kind, ctx_of(*o));
    }
  }
  if (opt_.want("C06") || opt_.want("C09")) check_accessors(*o);
  if (opt_.want("C07") && s.getInt(P::i("syncmode")) == 1) check_sync(*o);
  if (s.hasBasis() && opt_.want("C04")) check_basis(*o, false);
}

// rational LP = the numbers entered; real LP = its image; range types = classification of the rational bounds (C07)
void Executor::check_sync(Obj& o) {
  auto& s = *o.s; const LP& lp = o.lp;
  auto ctx = ctx_of(o);
  count("sync_checks");
  if (s.numRowsRational() != lp.nrows() || s.numColsRational() != lp.ncols()) { viol("C07", "rational_dimensions", "rational LP dimensions differ from the model", ctx); return; }
  if (s.numRows() != lp.nrows() || s.numCols() != lp.ncols()) { viol("C07", "real_dimensions", "real LP dimensions differ from the rational LP", ctx); return; }
  auto cmpE = [&](int inf, const Q& v, const Ext& e) { return inf == e.inf && (inf != 0 || v == e.v); };
  double dinf = s.getReal(P::r("infty"));
  for (int j = 0; j < lp.ncols(); j++) {
    int i1, i2; Q v1, v2; s.lowerQ(j, i1, v1); s.upperQ(j, i2, v2);
    if (!cmpE(i1, v1, lp.lo[j])) { viol("C07", "rational_lower", "lowerRational(" + std::to_string(j) + ")=" + v1.get_str() + " entered " + lp.lo[j].str(), ctx); return; }
    if (!cmpE(i2, v2, lp.up[j])) { viol("C07", "rational_upper", "upperRational(" + std::to_string(j) + ")=" + v2.get_str() + " entered " + lp.up[j].str(), ctx); return; }
    if (s.objQ(j) != lp.obj[j]) { viol("C07", "rational_obj", "objRational(" + std::to_string(j) + ")=" + s.objQ(j).get_str() + " entered " + lp.obj[j].get_str(), ctx); return; }
    // the real LP is the coefficient-wise image
    if (lp.lo[j].finite() ? !model::double_is_image(lp.lo[j].v, s.lower(j)) : !(s.lower(j) <= -dinf)) { viol("C07", "real_not_image", "lowerReal(" + std::to_string(j) + ") is not the image of the rational bound", ctx); return; }
    if (lp.up[j].finite() ? !model::double_is_image(lp.up[j].v, s.upper(j)) : !(s.upper(j) >= dinf)) { viol("C07", "real_not_image", "upperReal(" + std::to_string(j) + ") is not the image of the rational bound", ctx); return; }
    if (!model::double_is_image(lp.obj[j], s.obj(j))) { viol("C07", "real_not_image", "objReal(" + std::to_string(j) + ") is not the image of the rational objective", ctx); return; }
    int want = (lp.lo[j].finite() && lp.up[j].finite()) ? (lp.lo[j] == lp.up[j] ? 4 : 3) : lp.lo[j].finite() ? 1 : lp.up[j].finite() ? 2 : 0;   // RangeType: FREE 0, LOWER 1, UPPER 2, BOXED 3, FIXED 4
    if (s.peekColTypesSize() != lp.ncols()) { viol("C07", "range_types_size", "_colTypes has " + std::to_string(s.peekColTypesSize()) + " entries for " + std::to_string(lp.ncols()) + " columns", ctx); return; }
    if (s.peekColType(j) != want) { viol("C07", "col_range_type", "range type of column " + std::to_string(j) + " is " + std::to_string(s.peekColType(j)) + ", bounds say " + std::to_string(want), ctx); return; }
  }
  for (int i = 0; i < lp.nrows(); i++) {
    int i1, i2; Q v1, v2; s.lhsQ(i, i1, v1); s.rhsQ(i, i2, v2);
    if (!cmpE(i1, v1, lp.lhs[i])) { viol("C07", "rational_lhs", "lhsRational(" + std::to_string(i) + ")=" + v1.get_str() + " entered " + lp.lhs[i].str(), ctx); return; }
    if (!cmpE(i2, v2, lp.rhs[i])) { viol("C07", "rational_rhs", "rhsRational(" + std::to_string(i) + ")=" + v2.get_str() + " entered " + lp.rhs[i].str(), ctx); return; }
    sut::SVecQ rv = s.rowVecQ(i); int nz = 0;
    for (size_t k = 0; k < rv.idx.size(); k++) { int j = rv.idx[k]; if (j < 0 || j >= lp.ncols() || rv.val[k] != lp.A[i][j]) { viol("C07", "rational_matrix", "rowVectorRational(" + std::to_string(i) + ") differs from the entered numbers", ctx); return; } nz++; }
    int mz = 0; for (int j = 0; j < lp.ncols(); j++) if (lp.A[i][j] != 0) mz++;
    if (nz != mz) { viol("C07", "rational_matrix", "rowVectorRational(" + std::to_string(i) + ") has a different number of nonzeros than entered", ctx); return; }
    sut::SVec dv = s.rowVec(i);
    for (size_t k = 0; k < dv.idx.size(); k++) { int j = dv.idx[k]; if (j < 0 || j >= lp.ncols() || !model::double_is_image(lp.A[i][j], dv.val[k])) { viol("C07", "real_not_image", "row " + std::to_string(i) + " of the real LP is not the image of the rational row", ctx); return; } }
    if (s.peekRowTypesSize() != lp.nrows()) { viol("C07", "range_types_size", "_rowTypes has " + std::to_string(s.peekRowTypesSize()) + " entries for " + std::to_string(lp.nrows()) + " rows", ctx); return; }
    int want = (lp.lhs[i].finite() && lp.rhs[i].finite()) ? (lp.lhs[i] == lp.rhs[i] ? 4 : 3) : lp.lhs[i].finite() ? 1 : lp.rhs[i].finite() ? 2 : 0;
    if (s.peekRowType(i) != want) { viol("C07", "row_range_type", "range type of row " + std::to_string(i) + " is " + std::to_string(s.peekRowType(i)) + ", sides say " + std::to_string(want), ctx); return; }
  }
  for (int j = 0; j < lp.ncols(); j++) { sut::SVecQ cv = s.colVecQ(j); for (size_t k = 0; k < cv.idx.size(); k++) { int i = cv.idx[k]; if (i < 0 || i >= lp.nrows() || cv.val[k] != lp.A[i][j]) { viol("C07", "rational_matrix", "colVectorRational(" + std::to_string(j) + ") differs from the entered numbers", ctx); return; } } }
  if (!s.areLPsInSync(true, true)) { viol("C07", "areLPsInSync_false", "areLPsInSync() reports a difference", ctx); return; }
}

// setBasis with an arbitrary valid regular basis, read back (C04)
void Executor::op_setbasis(const Op& op, Obj& o) {
  auto& s = *o.s; const LP& lp = o.lp;
  int m = lp.nrows(), n = lp.ncols();
  if (s.numRows() != m || s.numCols() != n || m + n == 0) return;
  Rng r(mix((uint64_t)op.geti("bseed", 1), 0xBA5));
  LP img = real_image(lp);
  for (int attempt = 0; attempt < 20; attempt++) {
    std::vector<int> pool(m + n); for (int k = 0; k < m + n; k++) pool[k] = k;
    for (int k = m + n - 1; k > 0; k--) std::swap(pool[k], pool[r.below(k + 1)]);
    std::vector<char> basic(m + n, 0); for (int k = 0; k < m; k++) basic[pool[k]] = 1;
    std::vector<int> bind; for (int j = 0; j < n; j++) if (basic[j]) bind.push_back(j); for (int i = 0; i < m; i++) if (basic[n + i]) bind.push_back(-1 - i);
    std::vector<std::vector<Q>> B, inv;
    if (!model::basis_matrix(img, bind, B) || !model::exact_inverse(B, inv)) continue;
    auto nb = [&](const Ext& l, const Ext& u) -> int { if (l.finite() && u.finite()) return l == u ? sut::VS_FIXED : (r.chance(0.5) ? sut::VS_ON_LOWER : sut::VS_ON_UPPER); if (l.finite()) return (int)sut::VS_ON_LOWER; if (u.finite()) return (int)sut::VS_ON_UPPER; return (int)sut::VS_ZERO; };
    std::vector<int> rows(m), cols(n);
    for (int j = 0; j < n; j++) cols[j] = basic[j] ? sut::VS_BASIC : nb(lp.lo[j], lp.up[j]);
    for (int i = 0; i < m; i++) rows[i] = basic[n + i] ? sut::VS_BASIC : nb(lp.lhs[i], lp.rhs[i]);
    if (opt_.verbose) { fprintf(stderr, "[setbasis] rows:"); for (int v : rows) fprintf(stderr, " %d", v); fprintf(stderr, " cols:"); for (int v : cols) fprintf(stderr, " %d", v); fprintf(stderr, "\n"); }
    s.setBasis(rows, cols);
    count("setbasis");
    o.stopped_since_change = false;
    if (!s.hasBasis()) { viol("C04", "setbasis_lost", "hasBasis() false after setBasis with a valid regular basis", ctx_of(o)); return; }
    std::vector<int> r2, c2; s.getBasis(r2, c2);
    auto same = [&](int x, int y, const Ext& l, const Ext& u) { if (x == y) return true; return l.finite() && u.finite() && l == u && x != sut::VS_BASIC && y != sut::VS_BASIC && x != sut::VS_ZERO; };
    for (int j = 0; j < n; j++) if (!same(cols[j], c2[j], lp.lo[j], lp.up[j])) { viol("C04", "setbasis_roundtrip", "column " + std::to_string(j) + " set to " + std::to_string(cols[j]) + " read back as " + std::to_string(c2[j]), ctx_of(o)); return; }
    for (int i = 0; i < m; i++) if (!same(rows[i], r2[i], lp.lhs[i], lp.rhs[i])) { viol("C04", "setbasis_roundtrip", "row " + std::to_string(i) + " set to " + std::to_string(rows[i]) + " read back as " + std::to_string(r2[i]), ctx_of(o)); return; }
    if (opt_.want("C04")) check_basis(o, false);
    if (opt_.want("C05")) check_inverse(o);
    return;
  }
  count("setbasis_no_regular_basis_found");
}

// ------------------------------------------------------------------ C15 parameter operations
void Executor::op_param(const Op& op, Obj& o) {
  auto& s = *o.s; auto& pi = sut::param_info();
  std::string kind = op.get("kind", "setvalid");
  Rng r(mix((uint64_t)op.geti("s", 1), 0x9A2A));
  bool any = op.geti("any", 0) != 0;   // any parameter (run without later solves) or only the ones that are safe to vary before a solve
  static const char* safeB[] = {"ensureray", "fullperturbation", "rowboundflips", "persistentscaling", "acceptcycling", "powerscaling", "ratfacjump", "forcebasic", "testdualinf", "eqtrans"};
  static const char* safeI[] = {"representation", "algorithm", "factor_update_type", "factor_update_max", "displayfreq", "simplifier", "scaler", "starter", "pricer", "ratiotester", "hyperpricing", "solution_polishing", "ratfac_minstalls", "leastsq_maxrounds", "printbasismetric", "stattimer", "timer"};
  static const char* safeR[] = {"maxscaleincr", "sparsity_threshold", "representation_switch", "ratrec_freq", "minred", "refac_basis_nnz", "refac_update_fill", "refac_mem_factor", "min_markowitz", "precision_boosting_factor", "liftminval", "liftmaxval"};
  auto snapshot = [&](std::vector<bool>& b, std::vector<int>& i, std::vector<double>& d) { b.clear(); i.clear(); d.clear(); for (int p = 0; p < pi.nbool; p++) b.push_back(s.getBool(p)); for (int p = 0; p < pi.nint; p++) i.push_back(s.getInt(p)); for (int p = 0; p < pi.nreal; p++) d.push_back(s.getReal(p)); };
  auto same = [&](const std::vector<bool>& b, const std::vector<int>& i, const std::vector<double>& d) { for (int p = 0; p < pi.nbool; p++) if (b[p] != s.getBool(p)) return "bool:" + pi.bname[p]; for (int p = 0; p < pi.nint; p++) if (i[p] != s.getInt(p)) return "int:" + pi.iname[p]; for (int p = 0; p < pi.nreal; p++) if (memcmp(&d[p], &(const double&)s.getReal(p), 8) && !(std::isnan(d[p]) && std::isnan(s.getReal(p)))) return "real:" + pi.rname[p]; return std::string(); };
  count("param:" + kind);
  if (kind == "setbad" || kind == "parsebad") res_.nontrivial = true;   // an invalid value is the injected fault of a parameter history
  if (op.has("force") && kind != "setsettings") {
    std::string f = op.get("force"); std::vector<bool> b0; std::vector<int> i0; std::vector<double> d0; snapshot(b0, i0, d0);
    size_t eq = f.find('='); std::string nm = f.substr(0, eq), vv = eq == std::string::npos ? "" : f.substr(eq + 1); bool ok;
    if (kind == "setbad" && nm.compare(0, 5, "real:") == 0) { int p = P::r(nm.substr(5)); ok = p >= 0 && s.setReal(p, vv == "nan" ? (double)NAN : atof(vv.c_str())); }
    else ok = s.parseSettings(f);
    if (ok) viol("C15", "invalid_value_accepted", f + " accepted (returned true)", {{"param", nm}});
    else { std::string w = same(b0, i0, d0); if (!w.empty()) viol("C15", "rejected_value_changed_state", f + " was rejected but " + w + " changed"); }
    return;
  }
  int ty = r.range(0, 2);
  bool viaString = kind == "parsevalid" || kind == "parsebad";
  bool bad = kind == "setbad" || kind == "parsebad";
  if (kind == "reset") {
    s.resetSettings(); o.pm.reset();
    o.lp.sense = o.pm.i[P::i("objsense")]; o.lp.offset = model::q_from_double(o.pm.r[P::r("obj_offset")]);
    o.pm.seed = s.seed();   // the seed is not part of the tables
    if (s.getInt(P::i("verbosity")) != 0) { s.setInt(P::i("verbosity"), 0); } o.pm.i[P::i("verbosity")] = 0;
    o.refReal.valid = o.refRat.valid = false; o.stopped_since_change = false;
    if (s.getInt(P::i("syncmode")) == 0) o.ever_rational = o.ever_rational;
  } else if (kind == "setsettings") {
    // setSettings(settings of a second object) has exactly the effect of the typed setters
    sut::Sut other; int nset = r.range(1, 4);
    for (int k = 0; k < nset; k++) { int p = P::i(safeI[r.below(sizeof safeI / sizeof safeI[0])]); other.setInt(p, r.range(pi.ilo[p], std::min(pi.iup[p], pi.ilo[p] + 6))); }
    // every parameter must travel with the settings object, also the ones at the end of the tables
    if (r.chance(0.5)) other.setInt(P::i("multiprecision_limit"), r.range(50, 5000));
    if (r.chance(0.5)) other.setInt(P::i("storeBasisSimplexFreq"), r.range(1, 50000));
    if (r.chance(0.5)) other.setReal(P::r("precision_boosting_factor"), 1.0 + r.range(0, 8));
    if (r.chance(0.5)) other.setBool(P::b("recovery_mechanism"), r.chance(0.5));
    // histories with LP modifications keep the synchronisation mode they were started with (the single-LP model of this engine describes
    // ONLYREAL and AUTO; MANUAL and mode switches are not modelled); pure parameter histories (any=1) vary it
    if (any) { if (r.chance(0.5)) other.setInt(P::i("syncmode"), r.range(0, 2)); } else other.setInt(P::i("syncmode"), s.getInt(P::i("syncmode")));
    other.setInt(P::i("verbosity"), 0); other.setInt(P::i("objsense"), s.getInt(P::i("objsense"))); other.setReal(P::r("obj_offset"), s.getReal(P::r("obj_offset")));
    bool ok = s.copySettingsFrom(other);
    if (!ok) viol("C15", "setsettings_failed", "setSettings() with valid settings returned false");
    for (int p = 0; p < pi.nbool; p++) o.pm.b[p] = other.getBool(p); for (int p = 0; p < pi.nint; p++) o.pm.i[p] = other.getInt(p); for (int p = 0; p < pi.nreal; p++) o.pm.r[p] = other.getReal(p);
    if (o.pm.i[P::i("syncmode")] != 0) o.ever_rational = true;
    o.refReal.valid = o.refRat.valid = false;
  } else {
    std::string name, sval; bool ok = false, expect = !bad;
    std::vector<bool> b0; std::vector<int> i0; std::vector<double> d0; snapshot(b0, i0, d0);
    if (ty == 0) {
      int p = any ? (int)r.below(pi.nbool) : P::b(safeB[r.below(sizeof safeB / sizeof safeB[0])]);
      if (pi.bname[p] == "lifting" || pi.bname[p].compare(0, 18, "simplifier_enable_") == 0) p = P::b("ensureray");   // the simplifier_enable_* switches belong to PaPILO, which is not compiled in: they are rejected by design
      bool v = r.chance(0.5); name = "bool:" + pi.bname[p];
      if (bad && !viaString) { count("param_skipped"); return; }   // every bool value is valid through the typed setter
      sval = bad ? r.pick({std::string("2"), std::string("yes"), std::string("maybe"), std::string("-1")}) : std::string(v ? (r.chance(0.5) ? "true" : "1") : (r.chance(0.5) ? "false" : "0"));
      if (viaString) ok = s.parseSettings(name + "=" + sval); else ok = s.setBool(p, v);
      if (ok && expect) o.pm.b[p] = v;
    } else if (ty == 1) {
      int p = any ? (int)r.below(pi.nint) : P::i(safeI[r.below(sizeof safeI / sizeof safeI[0])]);
      if (pi.iname[p] == "verbosity" || pi.iname[p] == "solvemode" || pi.iname[p] == "checkmode" || pi.iname[p] == "readmode" || pi.iname[p] == "multiprecision_limit" || pi.iname[p] == "storeBasisSimplexFreq") p = P::i("pricer");
      long lo = pi.ilo[p], up = pi.iup[p], v;
      if (!bad) { v = r.pick({lo, up, (long)pi.idef[p], lo + (long)r.below((uint64_t)std::min<long>(up - lo, 8) + 1)}); if (pi.iname[p] == "objsense" && v == 0) v = 1; if (pi.iname[p] == "simplifier" && v == 2) v = 3; }
      else { v = r.pick({(long)(lo - 1), (long)(up + 1), (long)INT_MIN, (long)INT_MAX, (long)(lo - 1000)}); if (v >= lo && v <= up) v = lo - 1; if (v < INT_MIN || v > INT_MAX) { count("param_skipped"); return; } }
      name = "int:" + pi.iname[p]; sval = std::to_string(v);
      if (viaString && bad && r.chance(0.3)) sval = r.pick({std::string("abc"), std::string("x1"), std::string("99999999999999999999")});
      if (viaString) ok = s.parseSettings(name + (r.chance(0.3) ? " = " : "=") + sval); else ok = s.setInt(p, (int)v);
      if (ok && expect) { o.pm.i[p] = (int)v; if (pi.iname[p] == "objsense") o.lp.sense = (int)v; if (pi.iname[p] == "syncmode" && v != 0) o.ever_rational = true; o.refReal.valid = o.refRat.valid = false; }
    } else {
      int p = any ? (int)r.below(pi.nreal) : P::r(safeR[r.below(sizeof safeR / sizeof safeR[0])]);
      if (pi.rname[p] == "infty" || pi.rname[p] == "simplifier_modifyrowfac") p = P::r("minred");   // simplifier_modifyrowfac belongs to PaPILO (not compiled in)   // INFTY rescales the meaning of stored bounds: handled by its own scenario, not here
      double lo = pi.rlo[p], up = pi.rup[p], v;
      if (!bad) { v = r.pick({lo, up, pi.rdef[p], lo + (up - lo) * r.unit() * (up - lo > 1e50 ? 1e-90 : 1.0)}); if (!(v >= lo && v <= up)) v = pi.rdef[p]; }
      else { v = r.pick({(double)(lo - 1.0), (double)(up * 2 + 1.0), (double)-INFINITY, (double)INFINITY, (double)NAN, (double)(lo - 1e-9 - fabs(lo) * 1e-9)}); if (v >= lo && v <= up) v = std::nextafter(lo, -INFINITY); if (v >= lo && v <= up) { count("param_skipped"); return; } }
      char buf[64]; snprintf(buf, sizeof buf, "%.17g", v); name = "real:" + pi.rname[p]; sval = buf;
      if (viaString && bad && r.chance(0.3)) sval = r.pick({std::string("abc"), std::string("nan"), std::string("--1"), std::string("1e999999")});
      if (viaString) ok = s.parseSettings(name + "=" + sval); else ok = s.setReal(p, v);
      if (ok && expect) { o.pm.r[p] = viaString ? atof(sval.c_str()) : v; if (pi.rname[p] == "obj_offset") o.lp.offset = model::q_from_double(o.pm.r[p]); }
    }
    if (opt_.verbose) fprintf(stderr, "[param] %s %s=%s ok=%d\n", kind.c_str(), name.c_str(), sval.c_str(), (int)ok);
    std::map<std::string, std::string> ctx = {{"param", name}, {"value", sval}, {"via", viaString ? "string" : "setter"}};
    if (expect && !ok) { viol("C15", "valid_value_rejected", name + "=" + sval + " rejected", ctx); }
    if (!expect && ok) { viol("C15", "invalid_value_accepted", name + "=" + sval + " accepted (returned true)", ctx); for (int p = 0; p < pi.nbool; p++) o.pm.b[p] = s.getBool(p); for (int p = 0; p < pi.nint; p++) o.pm.i[p] = s.getInt(p); for (int p = 0; p < pi.nreal; p++) o.pm.r[p] = s.getReal(p); }
    if (!expect && !ok) { std::string w = same(b0, i0, d0); if (!w.empty()) { viol("C15", "rejected_value_changed_state", name + "=" + sval + " was rejected but " + w + " changed", ctx); for (int p = 0; p < pi.nbool; p++) o.pm.b[p] = s.getBool(p); for (int p = 0; p < pi.nint; p++) o.pm.i[p] = s.getInt(p); for (int p = 0; p < pi.nreal; p++) o.pm.r[p] = s.getReal(p); } }
  }
  check_params(o);
  // no parameter operation other than sense and offset changes the stored LP
  if (s.numCols() == o.lp.ncols() || o.lp.ncols() == 0) check_accessors(o);
}

// ------------------------------------------------------------------ C11: rational basis inverse is exact
void Executor::check_ratinverse(Obj& o) {
  auto& s = *o.s; const LP& lp = o.lp;
  if (s.getInt(P::i("syncmode")) == 0 || !s.hasBasis()) return;
  int m = lp.nrows(), n = lp.ncols();
  if (m == 0 || s.numRowsRational() != m || s.numColsRational() != n) return;
  auto ctx = ctx_of(o);
  std::vector<int> rows, cols; s.getBasis(rows, cols);
  int nb = 0; for (int v : rows) nb += v == sut::VS_BASIC; for (int v : cols) nb += v == sut::VS_BASIC;
  if (nb != m) return;
  bool ok = s.computeBasisInverseRational();
  std::vector<int> bind; bool okb = s.getBasisIndRational(bind);
  count("ratinverse_checked");
  // expected basis matrix from the statuses (order taken from SoPlex's own index array once it is available)
  if (!ok || !okb) {
    // must be singular then (or a limit fired)
    std::vector<int> b2; for (int j = 0; j < n; j++) if (cols[j] == sut::VS_BASIC) b2.push_back(j); for (int i = 0; i < m; i++) if (rows[i] == sut::VS_BASIC) b2.push_back(-1 - i);
    std::vector<std::vector<Q>> B, inv;
    double inf = s.getReal(P::r("infty"));
    bool timeArmed = s.getReal(P::r("timelimit")) < inf;
    if (model::basis_matrix(lp, b2, B) && model::exact_inverse(B, inv) && !timeArmed) viol("C11", "regular_basis_reported_singular", "computeBasisInverseRational/getBasisIndRational failed on a basis whose exact matrix is nonsingular", ctx);
    return;
  }
  if ((int)bind.size() != m) { viol("C11", "basisind_size", "getBasisIndRational returned " + std::to_string(bind.size()) + " entries for " + std::to_string(m) + " rows", ctx); return; }
  std::vector<char> sr(m, 0), sc(n, 0);
  for (int k = 0; k < m; k++) { int b = bind[k]; if (b >= 0) { if (b >= n || cols[b] != sut::VS_BASIC || sc[b]) { viol("C11", "basisind_mismatch", "getBasisIndRational names a non-basic or repeated column", ctx); return; } sc[b] = 1; } else { int i = -1 - b; if (i >= m || rows[i] != sut::VS_BASIC || sr[i]) { viol("C11", "basisind_mismatch", "getBasisIndRational names a non-basic or repeated row", ctx); return; } sr[i] = 1; } }
  std::vector<std::vector<Q>> B, inv;
  if (!model::basis_matrix(lp, bind, B)) return;
  if (!model::exact_inverse(B, inv)) { viol("C11", "singular_basis_factorized", "the rational factorization reported success on an exactly singular basis matrix", ctx); return; }
  for (int t = 0; t < 2; t++) {
    int k = (int)orng_.below(m);
    std::vector<Q> d; std::vector<int> idx;
    if (!s.basisInverseRowQ(k, d, idx)) { viol("C11", "inverse_row_failed", "getBasisInverseRowRational returned false", ctx); return; }
    for (int i = 0; i < m; i++) if (d[i] != inv[k][i]) { viol("C11", "inverse_row_inexact", "row " + std::to_string(k) + " entry " + std::to_string(i) + ": " + d[i].get_str() + " vs exact " + inv[k][i].get_str(), ctx); return; }
    if (!(idx.size() == 1 && idx[0] == -2)) { std::vector<char> in(m, 0); for (int i : idx) if (i >= 0 && i < m) in[i] = 1; for (int i = 0; i < m; i++) if ((d[i] != 0) != (in[i] != 0)) { viol("C11", "inverse_row_indices", "index list differs from the nonzero positions", ctx); return; } }
    if (!s.basisInverseColQ(k, d, idx)) { viol("C11", "inverse_col_failed", "getBasisInverseColRational returned false", ctx); return; }
    for (int i = 0; i < m; i++) if (d[i] != inv[i][k]) { viol("C11", "inverse_col_inexact", "column " + std::to_string(k) + " entry " + std::to_string(i) + ": " + d[i].get_str() + " vs exact " + inv[i][k].get_str(), ctx); return; }
    if (!(idx.size() == 1 && idx[0] == -2)) { std::vector<char> in(m, 0); for (int i : idx) if (i >= 0 && i < m) in[i] = 1; for (int i = 0; i < m; i++) if ((d[i] != 0) != (in[i] != 0)) { viol("C11", "inverse_col_indices", "index list differs from the nonzero positions", ctx); return; } }
    sut::SVecQ rhs; std::vector<Q> v(m, Q(0));
    for (int i = 0; i < m; i++) if (orng_.chance(0.6)) { v[i] = Q((long)orng_.range(-7, 7), (long)orng_.pick({1, 1, 3, 7})); v[i].canonicalize(); if (v[i] != 0) { rhs.idx.push_back(i); rhs.val.push_back(v[i]); } }
    if (!s.basisInverseTimesVecQ(rhs, d, idx)) { viol("C11", "inverse_solve_failed", "getBasisInverseTimesVecRational returned false", ctx); return; }
    for (int i = 0; i < m; i++) { Q e = 0; for (int j = 0; j < m; j++) e += inv[i][j] * v[j]; if (d[i] != e) { viol("C11", "inverse_solve_inexact", "B^-1 v entry " + std::to_string(i) + ": " + d[i].get_str() + " vs exact " + e.get_str(), ctx); return; } }
  }
}
}  // namespace sim
