// simrun: worker / replay / shrink front end of the simulator.
#include "exec.h"
#include "gen.h"
#include <cstdio>
#include <cstring>
#include <fstream>
#include <sstream>
#include <chrono>
#include <sys/wait.h>
#include <unistd.h>
#include <signal.h>

using namespace sim;

extern "C" __attribute__((used)) const char* __asan_default_options() { return "exitcode=77:detect_leaks=1:abort_on_error=0:allocator_may_return_null=1:detect_stack_use_after_return=0"; }
extern "C" __attribute__((used)) const char* __ubsan_default_options() { return "halt_on_error=1:exitcode=77:print_stacktrace=1"; }
extern "C" __attribute__((used)) const char* __tsan_default_options() { return "exitcode=66:halt_on_error=1:second_deadlock_stack=1:report_signal_unsafe=0"; }
extern "C" __attribute__((used)) const char* __lsan_default_options() { return "exitcode=78"; }

static std::string jesc(const std::string& s) {
  std::string o; for (unsigned char c : s) { if (c == '"' || c == '\\') { o.push_back('\\'); o.push_back(c); } else if (c == '\n') o += "\\n"; else if (c < 32) { char b[8]; snprintf(b, sizeof b, "\\u%04x", c); o += b; } else o.push_back(c); } return o;
}
static std::string viol_json(const Violation& v, uint64_t seed, bool repeat_ok) {
  std::ostringstream o;
  o << "{\"seed\":" << seed << ",\"prop\":\"" << v.prop << "\",\"oracle\":\"" << jesc(v.oracle) << "\",\"detail\":\"" << jesc(v.detail) << "\",\"op\":" << v.op_index << ",\"repeat_ok\":" << (repeat_ok ? "true" : "false") << ",\"ctx\":{";
  bool first = true; for (auto& c : v.ctx) { if (!first) o << ","; first = false; o << "\"" << jesc(c.first) << "\":\"" << jesc(c.second) << "\""; }
  o << "}}";
  return o.str();
}

// ---- minimal JSON-lines reader for known_findings.jsonl (flat objects with one nested "when" object of strings)
static bool parse_known(const std::string& line, KnownPredicate& k) {
  auto str_after = [&](const std::string& key, size_t from, std::string& out) -> bool {
    size_t p = line.find("\"" + key + "\"", from); if (p == std::string::npos) return false;
    p = line.find(':', p); if (p == std::string::npos) return false;
    p = line.find_first_not_of(" ", p + 1); if (p == std::string::npos) return false;
    if (line[p] == '"') { size_t e = p + 1; std::string v; while (e < line.size() && line[e] != '"') { if (line[e] == '\\' && e + 1 < line.size()) e++; v.push_back(line[e]); e++; } out = v; return true; }
    size_t e = line.find_first_of(",}", p); out = line.substr(p, e - p); return true;
  };
  std::string v;
  if (!str_after("property", 0, k.prop)) return false;
  if (!str_after("oracle", 0, k.oracle)) return false;
  if (str_after("status", 0, v)) k.status = v;
  if (str_after("what", 0, v)) k.what = v;
  if (str_after("skip", 0, v)) k.skip = (v == "true");
  for (int pass = 0; pass < 2; pass++) {
  size_t w = line.find(pass == 0 ? "\"when\"" : "\"avoid\"");
  std::map<std::string, std::string>& target = pass == 0 ? k.when : k.avoid;
  if (w != std::string::npos) {
    size_t b = line.find('{', w), e = line.find('}', w);
    if (b != std::string::npos && e != std::string::npos) {
      std::string body = line.substr(b + 1, e - b - 1);
      size_t p = 0;
      while (true) {
        size_t k1 = body.find('"', p); if (k1 == std::string::npos) break; size_t k2 = body.find('"', k1 + 1);
        size_t v1 = body.find('"', body.find(':', k2) + 1); size_t v2 = body.find('"', v1 + 1);
        if (k2 == std::string::npos || v1 == std::string::npos || v2 == std::string::npos) break;
        target[body.substr(k1 + 1, k2 - k1 - 1)] = body.substr(v1 + 1, v2 - v1 - 1);
        p = v2 + 1;
      }
    }
  }
  }
  return true;
}
static std::vector<KnownPredicate> load_known(const std::string& file) {
  std::vector<KnownPredicate> r; std::ifstream in(file); std::string line;
  while (std::getline(in, line)) { if (line.empty() || line[0] == '#') continue; KnownPredicate k; if (parse_known(line, k)) r.push_back(k); }
  return r;
}


// oracles that need a second execution of the plan (used by workers, replay and shrink alike)
static void post_oracles(const Plan& p, const ExecOpts& eo, RunResult& r) {
  // C09: a report about the space of a returned vector ("scaled_*") is attributed to scaling only if the same history
  // with scaling switched off does not show the same defect at the same operation
  if (eo.want("C09") && !p.cfgi("noscale", 0)) {
    bool any = false; for (auto& v : r.viol) if (v.prop == "C09" && v.oracle.compare(0, 7, "scaled_") == 0) any = true;
    if (any) {
      Plan pn = p; pn.cfg["noscale"] = "1";
      ExecOpts e2 = eo; e2.props.clear(); e2.props.insert("C01"); e2.props.insert("C02");
      Executor ex2(pn, e2); RunResult r2 = ex2.run();
      std::vector<Violation> keep;
      for (auto& v : r.viol) {
        bool drop = false;
        if (v.prop == "C09" && v.oracle.compare(0, 7, "scaled_") == 0) for (auto& w : r2.viol) if (w.op_index == v.op_index && w.oracle == v.oracle.substr(7)) drop = true;
        if (drop) r.counters["c09_same_defect_without_scaling"]++; else keep.push_back(v);
      }
      r.viol.swap(keep);
    }
  }
  if (p.cfgi("ntasks", 1) > 1 && eo.props.count("C18") + eo.props.count("C17") > 0 && !eo.tsan) {
      // result comparison: every object must observe exactly what it observes when the tasks run one after the other
      Plan ps = p; ps.cfg["serial"] = "1";
      Executor exs(ps, eo); RunResult rs = exs.run();
      for (auto& od : r.obj_digest) {
        auto it = rs.obj_digest.find(od.first);
        if (it == rs.obj_digest.end() || it->second != od.second) {
          Violation v; bool pair = od.first.compare(0, 1, "C") == 0 || (p.cfgs("copysrc") == od.first);
          v.prop = eo.want("C18") ? "C18" : "C17"; v.oracle = pair ? "copy_or_source_differs_from_solo" : "task_result_differs_from_solo";
          v.detail = "object " + od.first + " observed different results when its task was interleaved with others than when the tasks ran one after the other";
          v.ctx["object"] = od.first.substr(0, 1);
          { bool ex = false, cp = false; for (auto& o2 : p.ops) { if (o2.name == "copy") cp = true; for (auto& kv : o2.kv) if ((kv.first == "int:solvemode" && kv.second == "2") || ((kv.first == "real:feastol" || kv.first == "real:opttol") && kv.second == "0")) ex = true; } v.ctx["exact"] = ex ? "1" : "0"; v.ctx["copy"] = cp ? "1" : "0"; }
          bool dup = false; for (auto& x : r.viol) if (x.prop == v.prop && x.oracle == v.oracle) dup = true;
          if (!dup) r.viol.push_back(v);
        }
      }
      if (p.cfgi("twins", 0) && eo.want("C17")) {
        auto a = r.obj_digest.find("T0#dead") != r.obj_digest.end() ? r.obj_digest.find("T0#dead") : r.obj_digest.find("T0");
        auto b = r.obj_digest.find("T1#dead") != r.obj_digest.end() ? r.obj_digest.find("T1#dead") : r.obj_digest.find("T1");
        if (a != r.obj_digest.end() && b != r.obj_digest.end() && a->second != b->second) {
          Violation v; v.prop = "C17"; v.oracle = "twins_differ"; v.detail = "two solver objects given the same LP, parameters, seed and call sequence observed different results"; r.viol.push_back(v);
        }
      }
    }
}
static void leak_oracle(const ExecOpts& eo, RunResult& r, const Plan& p);
static RunResult run_plan(const Plan& p, const ExecOpts& eo) { RunResult r; { Executor ex(p, eo); r = ex.run(); } post_oracles(p, eo, r); leak_oracle(eo, r, p); return r; }

extern "C" int __lsan_do_recoverable_leak_check() __attribute__((weak));
static void leak_oracle(const ExecOpts& eo, RunResult& r, const Plan& p) {
  if (!__lsan_do_recoverable_leak_check || !eo.want("C13")) return;
  if (__lsan_do_recoverable_leak_check() != 0) {
    Violation v; v.prop = "C13"; v.oracle = "leak"; v.detail = "LeakSanitizer reports memory that became unreachable during this run";
    // context: which reader ran last in this plan (kind of file, rational or real parser, whole-file or chunked stream)
    for (auto& o : p.ops) if (o.name == "file" && (o.get("do") == "read" || o.get("do") == "streamread")) {
      v.ctx["reader"] = o.has("kind") ? o.get("kind") : (o.get("ext") == ".mps" ? "mps" : o.get("ext") == ".lp" ? "lp" : o.get("ext"));
      v.ctx["rational"] = o.has("rational") ? o.get("rational") : "?"; v.ctx["via"] = o.get("do"); }
    r.viol.push_back(v); }
}
static double now_s() { return std::chrono::duration<double>(std::chrono::steady_clock::now().time_since_epoch()).count(); }

static std::string read_file(const std::string& f) { std::ifstream in(f, std::ios::binary); std::stringstream ss; ss << in.rdbuf(); return ss.str(); }
static void write_file(const std::string& f, const std::string& s) { std::ofstream o(f, std::ios::binary); o << s; }

// run a plan in a forked child (protects the shrinker against crashes and hangs). returns: -1 crash/hang, else violations found; fills keys
static int run_forked(const Plan& p, const ExecOpts& eo, std::vector<std::string>& keys, int timeout_s) {
  int fd[2]; if (pipe(fd) != 0) return -2;
  fflush(stdout);
  pid_t pid = fork();
  if (pid == 0) {
    close(fd[0]);
    alarm(timeout_s);
    RunResult r = run_plan(p, eo);
    std::string out; for (auto& v : r.viol) out += v.key() + "\n";
    ssize_t w = write(fd[1], out.data(), out.size()); (void)w;
    _exit(0);
  }
  close(fd[1]);
  std::string buf; char tmp[4096]; ssize_t n;
  while ((n = read(fd[0], tmp, sizeof tmp)) > 0) buf.append(tmp, n);
  close(fd[0]);
  int st = 0; waitpid(pid, &st, 0);
  keys.clear();
  if (!WIFEXITED(st) || WEXITSTATUS(st) != 0) { keys.push_back("CRASH"); return -1; }
  std::istringstream in(buf); std::string l; while (std::getline(in, l)) if (!l.empty()) keys.push_back(l);
  return (int)keys.size();
}
static bool has_key(const std::vector<std::string>& keys, const std::string& k) { for (auto& x : keys) if (x == k) return true; return false; }

// ddmin over operations + simplification passes; keeps candidates that still show 'key'
static Plan shrink(Plan p, const ExecOpts& eo, const std::string& key, int* reruns) {
  std::vector<std::string> keys;
  auto fails = [&](const Plan& c) { (*reruns)++; run_forked(c, eo, keys, 60); return has_key(keys, key); };
  // 1. drop ops (chunks, then singles)
  for (size_t chunk = std::max<size_t>(1, p.ops.size() / 2); chunk >= 1; chunk /= 2) {
    bool progress = true;
    while (progress) {
      progress = false;
      for (size_t i = 0; i + chunk <= p.ops.size();) {
        Plan c = p; c.ops.erase(c.ops.begin() + i, c.ops.begin() + i + chunk);
        if (!c.ops.empty() && fails(c)) { p = c; progress = true; } else i += chunk;
      }
    }
    if (chunk == 1) break;
  }
  // 2. drop individual arguments of set ops, simplify stop arguments
  for (size_t i = 0; i < p.ops.size(); i++) {
    if (p.ops[i].name == "set") {
      for (size_t a = 0; a < p.ops[i].kv.size();) { Plan c = p; c.ops[i].kv.erase(c.ops[i].kv.begin() + a); if (fails(c)) p = c; else a++; }
    } else if (p.ops[i].has("k")) {
      long k = p.ops[i].geti("k");
      for (long cand : {0L, 1L, 2L, k / 2, k - 1}) { if (cand < 0 || cand >= k) continue; Plan c = p; c.ops[i].seti("k", cand); if (fails(c)) { p = c; k = cand; } }
    }
  }
  // 3. simulator configuration
  for (const char* kcfg : {"bugmask", "logsink", "clock", "bugp", "bugbudget", "sticky"}) {
    if (!p.cfg.count(kcfg)) continue;
    Plan c = p; c.cfg.erase(kcfg); if (fails(c)) p = c;
  }
  // 4. instances: drop rows and columns
  for (size_t li = 0; li < p.lps.size(); li++) {
    for (int i = p.lps[li].nrows() - 1; i >= 0; i--) { Plan c = p; c.lps[li].removeRow(i); if (fails(c)) p = c; }
    for (int j = p.lps[li].ncols() - 1; j >= 0 && p.lps[li].ncols() > 1; j--) { Plan c = p; c.lps[li].removeCol(j); if (fails(c)) p = c; }
    for (int i = 0; i < p.lps[li].nrows(); i++) for (int j = 0; j < p.lps[li].ncols(); j++) if (p.lps[li].A[i][j] != 0) { Plan c = p; c.lps[li].A[i][j] = 0; if (fails(c)) p = c; }
  }
  return p;
}

int main(int argc, char** argv) {
  std::string engine = "stop", prop, replay, shrinkf, out, knownf, scratch = "", tier = "quick", oracle_key, dumpseed;
  uint64_t rawseed = 0; uint64_t seed0 = 1; long start = 0, stride = 1, count = 100, limit = -1; double deadline = 1e18; bool sacrificial = false, verbose = false;
  for (int i = 1; i < argc; i++) {
    std::string a = argv[i]; auto nxt = [&]() { return std::string(i + 1 < argc ? argv[++i] : ""); };
    if (a == "--engine") engine = nxt(); else if (a == "--prop") prop = nxt(); else if (a == "--replay") replay = nxt();
    else if (a == "--shrink") shrinkf = nxt(); else if (a == "--out") out = nxt(); else if (a == "--known") knownf = nxt();
    else if (a == "--scratch") scratch = nxt(); else if (a == "--tier") tier = nxt(); else if (a == "--key") oracle_key = nxt();
    else if (a == "--seed0") seed0 = strtoull(nxt().c_str(), nullptr, 10); else if (a == "--start") start = atol(nxt().c_str());
    else if (a == "--stride") stride = atol(nxt().c_str()); else if (a == "--count") count = atol(nxt().c_str()); else if (a == "--limit") limit = atol(nxt().c_str());
    else if (a == "--deadline") deadline = atof(nxt().c_str()); else if (a == "--sacrificial") sacrificial = true; else if (a == "--verbose") verbose = true;
    else if (a == "--dump") dumpseed = nxt();
    else if (a == "--rawseed") rawseed = strtoull(nxt().c_str(), nullptr, 10);
  }
  if (scratch.empty()) scratch = "/tmp/simdisk-" + std::to_string((long)getpid());
  else scratch += "/simdisk";
  install_hooks();
  { std::string cmd = "mkdir -p '" + scratch + "' '" + scratch + "-plans'"; int rc = system(cmd.c_str()); (void)rc; }
  ExecOpts eo; eo.scratch = scratch; eo.sacrificial = sacrificial; eo.verbose = verbose;
  if (!prop.empty()) { std::istringstream ps(prop); std::string x; while (std::getline(ps, x, ',')) eo.props.insert(x); }
  if (!knownf.empty()) eo.known = load_known(knownf);
#if defined(__SANITIZE_THREAD__)
  eo.tsan = true;
#endif
  GenOpts go; go.tier = tier; go.prop = prop;

  if (!dumpseed.empty()) { Plan p = generate_plan(engine, strtoull(dumpseed.c_str(), nullptr, 10), go); fputs(p.text().c_str(), stdout); return 0; }

  if (!replay.empty()) {
    Plan p; std::string err;
    if (!Plan::parse(read_file(replay), p, &err)) { fprintf(stderr, "cannot parse %s: %s\n", replay.c_str(), err.c_str()); return 2; }
    RunResult r = run_plan(p, eo);
    printf("REPLAY digest=%016llx events=%llu ops=%d\n", (unsigned long long)r.digest, (unsigned long long)r.nevents, r.ops_done);
    for (auto& v : r.viol) printf("V %s\n", viol_json(v, p.seed, true).c_str());
    for (auto& c : r.counters) if (verbose) printf("C %s=%ld\n", c.first.c_str(), c.second);
    fflush(stdout);
    return r.viol.empty() ? 0 : 1;
  }
  if (!shrinkf.empty()) {
    Plan p; std::string err;
    if (!Plan::parse(read_file(shrinkf), p, &err)) { fprintf(stderr, "cannot parse %s: %s\n", shrinkf.c_str(), err.c_str()); return 2; }
    std::vector<std::string> keys; int reruns = 0;
    run_forked(p, eo, keys, 120);
    if (!has_key(keys, oracle_key)) { printf("SHRINK notreproduced key=%s\n", oracle_key.c_str()); return 2; }
    size_t before = p.ops.size();
    Plan q = shrink(p, eo, oracle_key, &reruns);
    write_file(out, q.text());
    printf("SHRINK ok ops_before=%zu ops_after=%zu reruns=%d\n", before, q.ops.size(), reruns);
    return 0;
  }

  // ---------------- worker loop
  std::map<std::string, long> total; std::map<std::string, long> maxc;
  long runs = 0, nontrivial = 0; uint64_t events = 0; double vtime = 0;
  double t0 = now_s();
  for (long n = 0; n < count; n++) {
    if (now_s() - t0 > deadline) break;
    if (limit >= 0 && start + n * stride >= limit) break;
    uint64_t seed = rawseed ? rawseed : mix(seed0, (uint64_t)(start + n * stride));
    printf("B %llu %ld\n", (unsigned long long)seed, start + n * stride); fflush(stdout);
    Plan p = generate_plan(engine, seed, go);
    RunResult r = run_plan(p, eo);
    if (!r.viol.empty()) {
      // determinism gate: same plan again in this process must give the same digest and the same violations
      RunResult r2 = run_plan(p, eo);
      bool same = r2.digest == r.digest && r2.viol.size() == r.viol.size();
      std::string pf = scratch + "-plans/viol-" + std::to_string(seed) + ".plan";
      Plan pr = p; if (!r.sched_trace.empty()) pr.sched = r.sched_trace;
      write_file(pf, pr.text());
      for (auto& v : r.viol) { printf("V %s\n", viol_json(v, seed, same).c_str()); }
      printf("P %llu %s\n", (unsigned long long)seed, pf.c_str());
    }
    runs++; if (r.nontrivial) nontrivial++; events += r.nevents; vtime += r.vtime;
    for (auto& c : r.counters) { if (c.first.compare(0, 4, "max_") == 0) maxc[c.first] = std::max(maxc[c.first], c.second); else total[c.first] += c.second; }
    printf("E %llu %016llx %d %llu\n", (unsigned long long)seed, (unsigned long long)r.digest, r.nontrivial ? 1 : 0, (unsigned long long)r.nevents);
    if (n < 3 && start == 0) { std::string t = p.text(); printf("S %s\n", jesc(t).c_str()); }
  }
  printf("SUMMARY {\"runs\":%ld,\"nontrivial\":%ld,\"events\":%llu,\"vtime\":%.3f,\"wall\":%.3f,\"counters\":{", runs, nontrivial, (unsigned long long)events, vtime, now_s() - t0);
  bool first = true;
  for (auto& c : total) { printf("%s\"%s\":%ld", first ? "" : ",", jesc(c.first).c_str(), c.second); first = false; }
  for (auto& c : maxc) { printf("%s\"%s\":%ld", first ? "" : ",", jesc(c.first).c_str(), c.second); first = false; }
  printf("}}\n"); fflush(stdout);
  _exit(0);   // leaks are judged per run (C13); the exit-time leak check of LeakSanitizer is not wanted
}
