#include "soplex.h"
using namespace soplex;
int main() {
  SoPlex s; s.setIntParam(SoPlex::VERBOSITY, 0);
  s.setIntParam(SoPlex::SIMPLIFIER, SoPlex::SIMPLIFIER_OFF);
  s.setBoolParam(SoPlex::PERSISTENTSCALING, false);
  printf("st %d\n", (int)s.optimize());          // empty LP: ERROR, the LP copy made for scaling stays behind
  s.setBoolParam(SoPlex::PERSISTENTSCALING, true);
  printf("st %d\n", (int)s.optimize());          // scales the copy persistently, loads it and destroys it
  DSVector e; s.addRowReal(LPRowReal(-9, e, infinity));
  s.addColReal(LPColReal(4, e, infinity, -infinity)); s.addColReal(LPColReal(4, e, infinity, 4)); s.addColReal(LPColReal(5, e, infinity, 0));
  printf("st %d\n", (int)s.optimize());
  double row[1] = {99}; int nn, inds[1]; bool ok = s.getBasisInverseRowReal(0, row, inds, &nn); printf("inverse row: ok %d value %g (exact 1)\n", ok, row[0]);
}
