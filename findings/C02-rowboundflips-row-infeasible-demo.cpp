#include "soplex.h"
using namespace soplex;
int main(int argc, char** argv) {
  SoPlex s; s.setIntParam(SoPlex::VERBOSITY, argc > 2 ? 5 : 0);
  s.setIntParam(SoPlex::HYPER_PRICING, 0); s.setBoolParam(SoPlex::ROWBOUNDFLIPS, argc > 1 ? atoi(argv[1]) : 1);
  s.setIntParam(SoPlex::OBJSENSE, SoPlex::OBJSENSE_MAXIMIZE);
  DSVector e; double obj[5] = {4, -30, -20, -12, 8}, lo[5] = {-5, 5, 0, 1, -1.5}, up[5] = {infinity, infinity, infinity, infinity, 1.5};
  for (int j = 0; j < 5; j++) s.addColReal(LPColReal(obj[j], e, up[j], lo[j]));
  auto row = [&](double l, double r, std::initializer_list<std::pair<int,double>> v) { DSVector d; for (auto p : v) d.add(p.first, p.second); s.addRowReal(LPRowReal(l, d, r)); };
  row(-infinity, -17, {{1,-3},{3,-2}}); row(-15, infinity, {{1,-2},{2,3},{3,-5}}); row(1, infinity, {{4,2}}); row(20.5, 26.5, {{0,-5},{3,-1.5}});
  row(-infinity, -10, {{0,1},{1,-1},{4,-5}}); row(-35, -31, {{1,-5},{3,-6},{4,4}}); row(-11, -9, {{1,-2},{3,1}});
  SPxSolver::VarStatus rs[7] = {SPxSolver::BASIC, SPxSolver::ON_LOWER, SPxSolver::BASIC, SPxSolver::ON_UPPER, SPxSolver::ON_UPPER, SPxSolver::BASIC, SPxSolver::BASIC};
  SPxSolver::VarStatus cs[5] = {SPxSolver::BASIC, SPxSolver::BASIC, SPxSolver::BASIC, SPxSolver::ON_LOWER, SPxSolver::ON_UPPER};
  if (argc <= 3) s.setBasis(rs, cs);
  int st = s.optimize(); printf("status %d iters %d obj %g\n", st, s.numIterations(), s.objValueReal());
}
