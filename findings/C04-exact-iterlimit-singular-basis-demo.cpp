#include "soplex.h"
#include <iostream>
using namespace soplex;
void build(SoPlex& s){ DSVector e;
 s.setIntParam(SoPlex::OBJSENSE,SoPlex::OBJSENSE_MINIMIZE);
 s.setRealParam(SoPlex::OBJ_OFFSET,1.0);
 s.addColReal(LPCol(0.13131313131313133,e,6.0,-1.0));
 s.addColReal(LPCol(-0.04040404040404041,e,-3.0,-8.0));
 {DSVector r; r.add(0,-4.0); r.add(1,0.7272727272727273); s.addRowReal(LPRow(-26.324675324675326,r,-26.038961038961038));}
 {DSVector r; r.add(0,-2.0); r.add(1,0.36363636363636365); s.addRowReal(LPRow(-13.757575757575758,r,-13.090909090909092));}
}
void show(SoPlex& s){ int n=s.numCols(),m=s.numRows(); VectorReal x(n),y(m),d(n),sl(m); s.getPrimalReal(x.get_ptr(),n); s.getDualReal(y.get_ptr(),m); s.getRedCostReal(d.get_ptr(),n); s.getSlacksReal(sl.get_ptr(),m); std::cout<<"x "<<x<<"\ny "<<y<<"\nd "<<d<<"\nslack "<<sl<<"\n"; std::cout<<"Ax (";for(int i=0;i<m;i++){double a=0;DSVector r; s.getRowVectorReal(i,r);for(int k=0;k<r.size();k++)a+=r.value(k)*x[r.index(k)];std::cout<<a<<(i<m-1?", ":")\n");} }

void buildQ(SoPlex& s) { DSVectorRational e;
 s.setIntParam(SoPlex::OBJSENSE, SoPlex::OBJSENSE_MINIMIZE); s.setRealParam(SoPlex::OBJ_OFFSET, 1.0);
 s.addColRational(LPColRational(Rational(13)/99, e, 6, -1)); s.addColRational(LPColRational(Rational(-4)/99, e, -3, -8));
 { DSVectorRational r; r.add(0, -4); r.add(1, Rational(8)/11); s.addRowRational(LPRowRational(Rational(-2027)/77, r, Rational(-2005)/77)); }
 { DSVectorRational r; r.add(0, -2); r.add(1, Rational(4)/11); s.addRowRational(LPRowRational(Rational(-454)/33, r, Rational(-144)/11)); }
}
static void showb(SoPlex& s) { SPxSolver::VarStatus r[2], c[2]; s.getBasis(r, c); printf("   hasBasis %d rows %d %d cols %d %d iters %d\n", s.hasBasis(), r[0], r[1], c[0], c[1], s.numIterations()); }
int main(int argc, char** argv) {
  SoPlex s; s.setIntParam(SoPlex::VERBOSITY, argc > 1 ? 5 : 0);
  s.setIntParam(SoPlex::SIMPLIFIER, 0); s.setRealParam(SoPlex::OPTTOL, 0);
  s.setIntParam(SoPlex::SYNCMODE, SoPlex::SYNCMODE_AUTO);
  buildQ(s);
  s.setRealParam(SoPlex::TIMELIMIT, 0); printf("st %d\n", (int)s.optimize()); showb(s);
  s.setRealParam(SoPlex::TIMELIMIT, 1e100);
  s.setIntParam(SoPlex::STALLREFLIMIT, 1); printf("st %d obj %g\n", (int)s.optimize(), s.objValueReal()); showb(s);
  s.setIntParam(SoPlex::ITERLIMIT, 1); printf("st %d\n", (int)s.optimize()); showb(s);
}
