#include "soplex.h"
using namespace soplex;
int main(int argc, char** argv) {
  SoPlex s; s.setIntParam(SoPlex::VERBOSITY, argc > 2 ? 5 : 0);
  s.setIntParam(SoPlex::ALGORITHM, 0); s.setIntParam(SoPlex::PRICER, 5);
  s.setIntParam(SoPlex::OBJSENSE, SoPlex::OBJSENSE_MAXIMIZE); DSVector e;
  s.addColReal(LPColReal(-8, e, 0, -infinity)); s.addColReal(LPColReal(0.75, e, infinity, 6)); s.addColReal(LPColReal(0, e, 0, -3));
  { DSVector r; r.add(1, 1); s.addRowReal(LPRowReal(-5, r, 13)); }
  { DSVector r; r.add(0, 3); r.add(1, 1); s.addRowReal(LPRowReal(-infinity, r, -12)); }
  SPxSolver::VarStatus rs[2] = {SPxSolver::BASIC, SPxSolver::ON_UPPER}, cs[3] = {SPxSolver::BASIC, SPxSolver::ON_LOWER, SPxSolver::ON_LOWER};
  int mode = argc > 1 ? atoi(argv[1]) : 1;
  if (mode & 1) s.setBasis(rs, cs);
  if (mode & 2) { s.setIntParam(SoPlex::ITERLIMIT, 0); printf("st %d\n", (int)s.optimize()); s.setIntParam(SoPlex::ITERLIMIT, -1); }
  s.setIntParam(SoPlex::PRICER, 1);
  int st = s.optimize(); printf("st %d iters %d\n", st, s.numIterations());
  if (s.hasPrimalRay()) { VectorReal d(3); s.getPrimalRayReal(d.get_ptr(), 3); std::cout << "ray " << d << "\n"; }
}
