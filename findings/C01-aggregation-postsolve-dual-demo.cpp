#include "soplex.h"
#include <iostream>
using namespace soplex;
void build(SoPlex& s){ DSVector e;
 s.setIntParam(SoPlex::OBJSENSE,SoPlex::OBJSENSE_MINIMIZE);
 s.setRealParam(SoPlex::OBJ_OFFSET,0.0);
 s.addColReal(LPCol(-3.0,e,6.0,0.0));
 s.addColReal(LPCol(0.0,e,-1.0,-2.0));
 s.addColReal(LPCol(0.0,e,3.0,-5.0));
 {DSVector r; r.add(0,2.0); r.add(1,1.0); r.add(2,6.0); s.addRowReal(LPRow(-31.0,r,-31.0));}
 {DSVector r; r.add(1,6.0); r.add(2,5.0); s.addRowReal(LPRow(-31.0,r,-31.0));}
 {DSVector r; r.add(0,5.0); r.add(1,5.0); s.addRowReal(LPRow(-5.0,r,infinity));}
}
void show(SoPlex& s){ int n=s.numCols(),m=s.numRows(); VectorReal x(n),y(m),d(n),sl(m); s.getPrimalReal(x.get_ptr(),n); s.getDualReal(y.get_ptr(),m); s.getRedCostReal(d.get_ptr(),n); s.getSlacksReal(sl.get_ptr(),m); std::cout<<"x "<<x<<"\ny "<<y<<"\nd "<<d<<"\nslack "<<sl<<"\n"; std::cout<<"Ax (";for(int i=0;i<m;i++){double a=0;DSVector r; s.getRowVectorReal(i,r);for(int k=0;k<r.size();k++)a+=r.value(k)*x[r.index(k)];std::cout<<a<<(i<m-1?", ":")\n");} }
int main(int argc, char** argv) {
  SoPlex s; s.setIntParam(SoPlex::VERBOSITY, argc > 2 ? 5 : 0); if (argc > 3) s.setIntParam(SoPlex::REPRESENTATION, atoi(argv[3]));
  build(s);
  volatile bool flag = argc > 1 && atoi(argv[1]);
  int st = s.optimize(&flag); printf("status %d iters %d obj %g\n", st, s.numIterations(), s.objValueReal()); show(s); SPxSolver::VarStatus r[3], c[3]; s.getBasis(r, c); printf("rows %d %d %d cols %d %d %d (ON_UPPER=0 ON_LOWER=1 FIXED=2 ZERO=3 BASIC=4)\n", r[0], r[1], r[2], c[0], c[1], c[2]); double mv, sv; s.getRedCostViolation(mv, sv); printf("redcost violation %g\n", mv); s.getDualViolation(mv, sv); printf("dual violation %g\n", mv);
}
